#!/bin/bash
# usage: extract.sh <repo-dir> <out.json> [overflow-checks on|off]
# Runs the fact extractor over <repo-dir> with a fresh target dir (removed afterwards).
set -u
REPO=${1:?repo}; OUT=${2:?out}; OFC=${3:-on}
HERE=$(cd "$(dirname "$0")" && pwd)
DRV=$HERE/driver/target/release/lmv-driver
[ -x "$DRV" ] || { echo "extract: driver not built ($DRV); run setup" >&2; exit 3; }
SYSROOT=$(rustc +nightly --print sysroot)
T=$(mktemp -d "${TMPDIR:-/tmp}/lmv-target.XXXXXX")
trap 'rm -rf "$T"' EXIT
rm -f "$OUT"
( cd "$REPO" && env CARGO_NET_OFFLINE=true LD_LIBRARY_PATH="$SYSROOT/lib" \
  RUSTFLAGS="-Zmir-opt-level=0 -Awarnings -Cdebug-assertions=off -Coverflow-checks=$OFC --cfg lru_mem_verif" \
  RUSTC_WORKSPACE_WRAPPER="$DRV" CARGO_TARGET_DIR="$T" LMV_OUT="$OUT" LMV_CRATE=lru_mem \
  cargo +nightly check --offline --lib >"$T/log" 2>&1 )
rc=$?
if [ $rc -ne 0 ] || [ ! -s "$OUT" ]; then
  echo "extract: cargo check failed (rc=$rc) or no facts written" >&2
  tail -40 "$T/log" >&2
  exit 2
fi
exit 0
