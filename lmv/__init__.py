"""lmv: static-analysis engines over MIR facts of florian1345/lru-mem (see DESIGN.md)."""
