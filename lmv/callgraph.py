"""E1 (part 2): whole-crate call graph with closure edges, type-driven edges and drop glue."""
from .cfg import cfg_of
from .models import model_of, norm, USER_TRAITS
from .facts import span_str, place_str


def ty_mentions_param(ty, depth=0):
    """does a structured type mention a generic type parameter?"""
    if not isinstance(ty, dict) or depth > 10:
        return False
    k = ty.get("k")
    if k == "param":
        return True
    if k in ("alias", "dyn", "other", "deep"):
        # cannot see inside: be conservative only for projections like <S as BuildHasher>::Hasher
        return True
    for key in ("ty",):
        if key in ty and ty_mentions_param(ty[key], depth + 1):
            return True
    for key in ("args", "tys", "upvars"):
        for t in ty.get(key, []) or []:
            if ty_mentions_param(t, depth + 1):
                return True
    return False


def ty_local_adts(ty, out=None, depth=0):
    """names of local ADTs occurring anywhere in a structured type"""
    if out is None:
        out = set()
    if not isinstance(ty, dict) or depth > 10:
        return out
    if ty.get("k") == "adt" and ty.get("local"):
        out.add(ty["name"])
    for key in ("ty",):
        if key in ty:
            ty_local_adts(ty[key], out, depth + 1)
    for key in ("args", "tys", "upvars"):
        for t in ty.get(key, []) or []:
            ty_local_adts(t, out, depth + 1)
    return out


def ty_adts(ty, out=None, depth=0):
    if out is None:
        out = set()
    if not isinstance(ty, dict) or depth > 10:
        return out
    if ty.get("k") == "adt":
        out.add(ty["name"])
    for key in ("ty",):
        if key in ty:
            ty_adts(ty[key], out, depth + 1)
    for key in ("args", "tys", "upvars"):
        for t in ty.get(key, []) or []:
            ty_adts(t, out, depth + 1)
    return out


class Call:
    __slots__ = ("body", "bb", "term", "fn", "nominal", "resolved", "target", "closures", "trait", "name",
                 "model", "external", "user_kind", "type_targets", "kind")

    def __init__(self, body, bb, term):
        self.body = body
        self.bb = bb
        self.term = term
        self.kind = "call"
        self.fn = None
        self.nominal = None
        self.resolved = None
        self.target = None          # local Body
        self.closures = []          # local closure Bodies passed in generic args
        self.trait = None
        self.name = None
        self.model = None
        self.external = False
        self.user_kind = None       # 'hash','eq','clone','size','closure','fmt','drop','borrow','unknown'
        self.type_targets = []      # local trait-impl bodies an external generic callee may call

    @property
    def loc(self):
        return span_str(self.term["span"])

    @property
    def callee(self):
        return self.resolved or self.nominal or "?"

    def __repr__(self):
        return "<call %s in %s bb%d>" % (self.callee, self.body.path, self.bb)


class CallGraph:
    def __init__(self, facts):
        self.facts = facts
        self.local_traits = set(facts.traits.keys())
        self.calls = {}        # body.path -> [Call]
        self.drops = {}        # body.path -> [(bb, term, ty, [local drop bodies], user_drop: bool)]
        self.creates = {}      # body.path -> [closure Body] created (aggregate) in this body
        self._impl_methods = self._index_impls()
        self._drop_impls = {}  # adt name -> Body of Drop::drop
        for b in facts.bodies:
            if b.impl_trait == "std::ops::Drop" and b.name == "drop" and b.impl_self and b.impl_self.get("k") == "adt":
                self._drop_impls[b.impl_self["name"]] = b
        for b in facts.bodies:
            self._scan(b)
        self._reach = {}

    def _index_impls(self):
        """adt name -> list of trait-impl method bodies of that adt"""
        m = {}
        for b in self.facts.bodies:
            if b.impl_trait and b.impl_self and b.impl_self.get("k") == "adt" and b.impl_self.get("local"):
                m.setdefault(b.impl_self["name"], []).append(b)
        return m

    # ---- drop glue: which local Drop impls may run when a value of type ty is dropped
    def drop_targets(self, ty, seen=None, depth=0):
        out = []
        user = False
        if seen is None:
            seen = set()
        if not isinstance(ty, dict) or depth > 8:
            return out, user
        k = ty.get("k")
        if k == "param":
            return out, True
        if k in ("ref", "ptr", "prim", "fndef", "fnptr"):
            return out, False
        if k in ("alias", "dyn", "other", "deep"):
            return out, True
        if k == "adt":
            name = ty["name"]
            if name == "std::mem::MaybeUninit" or name == "std::mem::ManuallyDrop" or name == "std::marker::PhantomData":
                return out, False
            if ty.get("local"):
                if name in self._drop_impls:
                    out.append(self._drop_impls[name])
                adt = self.facts.adts.get(name)
                if adt and name not in seen:
                    seen.add(name)
                    for v in adt["variants"]:
                        for f in v["fields"]:
                            o, u = self.drop_targets(f["ty"], seen, depth + 1)
                            out += o
                            user = user or u
                return out, user
            # external adt: generic args may be dropped
            for a in ty.get("args", []):
                o, u = self.drop_targets(a, seen, depth + 1)
                out += o
                user = user or u
            return out, user
        for key in ("tys", "upvars"):
            for t in ty.get(key, []) or []:
                o, u = self.drop_targets(t, seen, depth + 1)
                out += o
                user = user or u
        if k in ("slice", "array") and "ty" in ty:
            o, u = self.drop_targets(ty["ty"], seen, depth + 1)
            out += o
            user = user or u
        return out, user

    def _scan(self, b):
        calls = []
        drops = []
        creates = []
        for bi, bl in enumerate(b.blocks):
            for st in bl["stmts"]:
                if st["k"] == "assign" and st["rv"]["k"] == "aggregate" and st["rv"].get("agg") == "closure":
                    cb = self.facts.body(st["rv"]["def"])
                    if cb is not None:
                        creates.append(cb)
            t = bl["term"]
            if t["k"] == "call":
                c = Call(b, bi, t)
                fn = t["func"].get("c", {}).get("fn") if t["func"]["k"] == "const" else None
                if fn is None:
                    c.nominal = "<indirect>"
                    c.external = True
                    c.user_kind = "unknown"
                    calls.append(c)
                    continue
                c.fn = fn
                c.nominal = fn["def"]
                c.trait = fn.get("trait")
                c.name = fn.get("name")
                r = fn.get("resolved")
                if isinstance(r, dict):
                    c.resolved = r["def"]
                    if r["local"]:
                        c.target = self.facts.body(r["def"])
                elif fn.get("local") and not c.trait:
                    c.target = self.facts.body(fn["def"])
                for cl in fn.get("closures", []):
                    cb = self.facts.body(cl)
                    if cb is not None and cb is not c.target:
                        c.closures.append(cb)
                if c.target is None:
                    c.external = True
                    c.model = model_of(c.resolved or c.nominal) or model_of(c.nominal)
                    self._classify_user(c, b)
                    # type-driven edges: local trait impl methods of local ADTs in the generic args
                    adts = set()
                    for a in fn.get("args", []):
                        ty_local_adts(a, adts)
                    for a in sorted(adts):
                        for mb in self._impl_methods.get(a, []):
                            if c.trait:
                                # trait method resolved to an external (blanket) impl: same trait family only
                                if not self._trait_related(c.trait, mb.impl_trait):
                                    continue
                            elif c.model is not None:
                                if mb.impl_trait not in c.model.get("traits", ()):
                                    continue
                            c.type_targets.append(mb)
                calls.append(c)
            elif t["k"] == "drop":
                pty = self._place_ty(b, t["place"])
                targets, user = self.drop_targets(pty) if pty else ([], True)
                drops.append({"bb": bi, "term": t, "ty": pty, "targets": targets, "user": user})
        self.calls[b.path] = calls
        self.drops[b.path] = drops
        self.creates[b.path] = creates

    @staticmethod
    def _trait_related(call_trait, impl_trait):
        if call_trait == impl_trait:
            return True
        it = ("std::iter::Iterator", "std::iter::DoubleEndedIterator", "std::iter::ExactSizeIterator",
              "std::iter::FusedIterator", "std::iter::IntoIterator")
        if call_trait in it and impl_trait in it:
            return True
        return False

    def _place_ty(self, b, place):
        # type of a place: structured type of the local if no projection, else look up string only
        if not place["p"]:
            return b.local_ty(place["l"])
        # find a local with the same type string (cheap) else a synthetic 'other'
        s = place["ty"]
        for l in b.locals:
            if l["ty"]["s"] == s:
                return l["ty"]
        return {"k": "other", "s": s}

    def _classify_user(self, c, b):
        fn = c.fn
        tr = c.trait
        if tr:
            unresolved = not isinstance(fn.get("resolved"), dict)
            st = fn.get("self_ty")
            mentions = any(ty_mentions_param(a) for a in fn.get("args", []))
            kind = USER_TRAITS.get(tr)
            if kind is None and tr in self.local_traits:
                kind = "size"
            if unresolved and mentions:
                c.user_kind = kind or "unknown"
                return
        m = c.model
        if m is None:
            mentions = any(ty_mentions_param(a) for a in (fn.get("args", []) if fn else []))
            if mentions:
                c.user_kind = "unknown"
            return
        if m.get("user"):
            mentions = any(ty_mentions_param(a) for a in fn.get("args", []))
            if mentions:
                n = norm(c.resolved or c.nominal)
                if "drop" in n:
                    c.user_kind = "drop"
                elif "fmt" in n:
                    c.user_kind = "fmt"
                elif "PartialEq" in n:
                    c.user_kind = "eq"
                else:
                    c.user_kind = "unknown"

    # ------------------------------------------------------------ graph queries
    def succ_bodies(self, b, include_drops=True):
        out = []
        for c in self.calls.get(b.path, []):
            if c.target is not None:
                out.append(c.target)
            out.extend(c.closures)
            out.extend(c.type_targets)
        out.extend(self.creates.get(b.path, []))
        if include_drops:
            for d in self.drops.get(b.path, []):
                out.extend(d["targets"])
        return out

    def reach(self, b, include_drops=True):
        """set of body paths reachable from b (including b)"""
        key = (b.path, include_drops)
        if key in self._reach:
            return self._reach[key]
        seen = {}
        st = [b]
        while st:
            x = st.pop()
            if x.path in seen:
                continue
            seen[x.path] = x
            st.extend(self.succ_bodies(x, include_drops))
        self._reach[key] = seen
        return seen

    def callers_of(self, path):
        out = []
        for bp, calls in self.calls.items():
            if "#inl" in bp:
                continue        # derived (inlined) bodies are views of real ones, not additional callers
            for c in calls:
                if (c.target is not None and c.target.path == path) or any(x.path == path for x in c.closures) \
                        or any(x.path == path for x in c.type_targets):
                    out.append(c)
        return out

    def find_path(self, src, pred, include_drops=True):
        """BFS: shortest chain of bodies from src to a body satisfying pred; returns list of paths or None"""
        from collections import deque
        q = deque([(src, [src.path])])
        seen = {src.path}
        while q:
            x, p = q.popleft()
            if pred(x):
                return p
            for y in self.succ_bodies(x, include_drops):
                if y.path not in seen:
                    seen.add(y.path)
                    q.append((y, p + [y.path]))
        return None
