"""MIR-level inlining of crate-local helpers into a *derived* body (the facts of /repo are never changed).

Several structural rules are intraprocedural: they look for a loop, a call and a dominance relation inside one body.  A refactoring
that extracts part of such a body into a private helper (or the reverse) moves the pieces apart without changing behaviour.  Those
rules are therefore re-evaluated on a derived body in which the helpers are inlined before they report anything: a defect survives
inlining, a mere change of function boundaries does not.

derive(ctx, body, should_inline, depth) -> Body with path `<orig>#inl<k>`; its calls are registered in ctx.cg.calls and its direct effects
in ctx.eff.direct under that path, and ctx.facts.body(path) finds it.  It is not added to ctx.facts.bodies (global scans ignore it).
"""
import copy
from .facts import Body

_COUNTER = [0]


def _remap_locals(x, off):
    if isinstance(x, dict):
        if "l" in x and isinstance(x.get("p"), list):
            x["l"] += off
            for e in x["p"]:
                if e.get("k") == "index" and "l" in e:
                    e["l"] += off
            return
        if x.get("k") in ("live", "dead") and "l" in x:
            x["l"] += off
            return
        for v in x.values():
            _remap_locals(v, off)
    elif isinstance(x, list):
        for v in x:
            _remap_locals(v, off)


def _remap_term(t, boff, ret_block, unwind_to):
    k = t["k"]
    if k == "goto":
        t["target"] += boff
    elif k == "switch":
        t["targets"] = [[v, b + boff] for (v, b) in t["targets"]]
        t["otherwise"] += boff
    elif k in ("call", "drop", "assert"):
        if t.get("target") is not None:
            t["target"] += boff
        if isinstance(t.get("unwind"), int):
            t["unwind"] += boff
        elif t.get("unwind") == "continue" and unwind_to is not None:
            t["unwind"] = unwind_to
    elif k == "return":
        sp = t.get("span")
        t.clear()
        if ret_block is None:
            t.update({"k": "unreachable", "span": sp})
        else:
            t.update({"k": "goto", "target": ret_block, "span": sp})
    elif k == "resume":
        if isinstance(unwind_to, int):
            sp = t.get("span")
            t.clear()
            t.update({"k": "goto", "target": unwind_to, "span": sp})
    return t


def _inline_once(ctx, body, should_inline, origin_path, chain):
    """inline every eligible direct call of `body` (one level); returns a new j dict or None if nothing was inlined"""
    calls = [c for c in ctx.cg.calls.get(body.path, []) if c.kind == "call" and c.target is not None and not c.target.is_closure]
    todo = []
    for c in calls:
        tg = c.target
        if tg.path == origin_path or tg.path in chain or tg.path == body.path:
            continue
        if len(tg.blocks) > 250 or not should_inline(tg):
            continue
        t = body.blocks[c.bb]["term"]
        if t["k"] != "call" or len(t["args"]) != tg.arg_count:
            continue
        todo.append(c)
    if not todo:
        return None, []
    j = copy.deepcopy(body.j)
    inlined = []
    for c in todo:
        tg = c.target
        off = len(j["locals"])
        boff = len(j["blocks"])
        call_bl = j["blocks"][c.bb]
        t = call_bl["term"]
        cal_locals = copy.deepcopy(tg.j["locals"])
        j["locals"].extend(cal_locals)
        cal_blocks = copy.deepcopy(tg.j["blocks"])
        n_cal = len(cal_blocks)
        # block that completes the call: dest := move callee's _0 ; goto target
        ret_block = None
        if t.get("target") is not None:
            ret_block = boff + n_cal
        unwind_to = t.get("unwind") if isinstance(t.get("unwind"), int) else (None if t.get("unwind") in (None, "continue") else t.get("unwind"))
        for bl in cal_blocks:
            _remap_locals(bl["stmts"], off)
            term = bl["term"]
            # remap locals inside the terminator (args, dest, discr, place, cond) but not block ids
            for key in ("args", "dest", "discr", "place", "cond", "func"):
                if key in term:
                    _remap_locals(term[key], off)
            _remap_term(term, boff, ret_block, unwind_to)
        j["blocks"].extend(cal_blocks)
        sp = t.get("span")
        if ret_block is not None:
            ret_ty = cal_locals[0]["ty"]
            j["blocks"].append({"cleanup": False, "stmts": [
                {"k": "assign", "place": copy.deepcopy(t["dest"]),
                 "rv": {"k": "use", "op": {"k": "move", "place": {"l": off, "p": [], "ty": ret_ty.get("s", "?")}}}, "span": sp}],
                "term": {"k": "goto", "target": t["target"], "span": sp}})
        # the call block: bind parameters, jump into the callee
        for i, a in enumerate(t["args"]):
            pty = cal_locals[i + 1]["ty"]
            call_bl["stmts"].append({"k": "assign", "place": {"l": off + i + 1, "p": [], "ty": pty.get("s", "?")},
                                     "rv": {"k": "use", "op": copy.deepcopy(a)}, "span": sp})
        call_bl["term"] = {"k": "goto", "target": boff, "span": sp}
        for d in tg.j.get("debug", []):
            d2 = copy.deepcopy(d)
            _remap_locals(d2, off)
            d2.pop("arg", None)
            j["debug"].append(d2)
        inlined.append(tg.path)
    return j, inlined


def derive(ctx, body, should_inline, depth=2):
    """body with eligible crate-local callees inlined up to `depth` levels; returns (derived Body, [inlined paths]) or (body, [])"""
    origin = body.path.split("#inl")[0]
    cur = body
    all_inl = []
    for _ in range(depth):
        j, inl = _inline_once(ctx, cur, should_inline, origin, set(all_inl))
        if j is None:
            break
        _COUNTER[0] += 1
        j["path"] = "%s#inl%d" % (origin, _COUNTER[0])
        nb = Body(j, -1)
        ctx.facts.by_path[nb.path] = [nb]
        ctx.cg._scan(nb)
        if getattr(ctx, "eff", None) is not None:
            ctx.eff.direct[nb.path] = ctx.eff._scan(nb)
        all_inl += inl
        cur = nb
    return cur, all_inl
