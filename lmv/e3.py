"""E3 driver: runs the abstract interpreter over every relevant entry point once and evaluates all numeric / ghost
obligations (for C01, C02, C03, C10, C11, C12, C13, C14, C16, C17).  Results are cached per tree hash and per version of the
analysis code, because every `./check Cxx` is a separate process."""
import os, json, hashlib, time, traceback
from .absint import Interp, St, Unsupported, mkstruct, vint, is_int, RAWTABLE
from .absmodels import enum_sig, heap_of
from .lin import Lin, le, lt, eq, ge, gt, cstr
from .facts import span_str, cache_dir, VERIF

CACHE0 = ("O", "cache0")
SEAL0 = ("O", "seal0")


def code_hash():
    h = hashlib.sha256()
    for f in ("absint.py", "absmodels.py", "lin.py", "e3.py", "models.py", "roles.py", "callgraph.py", "cfg.py", "terms.py", "effects.py",
              "facts.py", "inline.py"):
        with open(os.path.join(VERIF, "lmv", f), "rb") as fh:
            h.update(fh.read())
    return h.hexdigest()[:12]


class E3:
    def __init__(self, ctx):
        self.ctx = ctx
        self.r = ctx.roles
        self.out = []        # obligation records
        self.notes = []
        self.stats = {}
        self.unmodelled = set()

    # ------------------------------------------------------------------ records
    def rec(self, prop, key, ok, desc, loc=None, detail=None, vacuous=False):
        self.out.append({"prop": prop, "key": key, "ok": bool(ok), "desc": desc, "loc": loc, "detail": detail, "vacuous": vacuous})

    def check(self, prop, key, st, cons, desc, loc=None):
        ok = True
        failed = []
        feas = st.num.feasible()
        if feas:
            for c in cons:
                if not st.num.entails(c):
                    ok = False
                    failed.append(cstr(c))
        self.rec(prop, key, ok, desc, loc, {"not_entailed": failed} if failed else None, vacuous=not feas)
        return ok

    # ------------------------------------------------------------------ entry states
    def entry_state(self, ip, with_inv=True):
        r = self.r
        st = St()
        CS, MS, G, N = [Lin.sym(x) for x in ("CS0", "MS0", "G0", "N0")]
        UM = Lin.sym("UM")
        st.num.add(ge(UM, 65535))        # usize has at least 16 bits
        for s in (CS, MS, G, N):
            st.num.add(ge(s, 0))
            st.num.add(le(s, UM))
        if with_inv:
            st.num.add(eq(CS, G))
            st.num.add(le(CS, MS))
        tv = mkstruct(RAWTABLE, {"N": vint(N), "G": vint(G), "#tid": ("tid", 0)})
        st.store[SEAL0] = mkstruct(r.entry, {"#seal_of": CACHE0})
        st.store[CACHE0] = mkstruct(r.cache, {r.TABLE: tv, r.SEAL: ip.eptr(("ptr", SEAL0, ())), r.CS: vint(CS), r.MS: vint(MS),
                                              r.HB: ("opq", 0), "#list_tid": ("tid", 0)})
        return st

    def cache_fields(self, st, oid=CACHE0, val=None):
        r = self.r
        cv = val if val is not None else st.store.get(oid)
        if cv is None or cv[0] != "struct":
            return None
        f = cv[2]
        tab = f.get(r.TABLE)
        if not (is_int(f.get(r.CS)) and is_int(f.get(r.MS)) and tab and tab[0] == "struct" and is_int(tab[2].get("G"))):
            return None
        return {"CS": f[r.CS][1], "MS": f[r.MS][1], "G": tab[2]["G"][1], "N": tab[2]["N"][1], "cap": tab[2].get("cap"),
                "tid": tab[2].get("#tid"), "table": tab}

    # ------------------------------------------------------------------ hooks
    def install_hooks(self, ip, ep_name, closure_bound=False):
        e3 = self

        def on_user_call(ip_, fr, c, st, info):
            cf = e3.cache_fields(st)
            info["ep"] = ep_name
            if cf is None:
                return
            # only calls made while operating on `self` (not the half-built clone) matter: cache0 is `self`
            chain_tail = "/".join(p.split("::")[-1] for p in fr.chain[-3:])
            key = "%s:usercall:%s:%s@%s" % (ep_name, c.user_kind, c.callee.split("::")[-1], chain_tail)
            cons = [eq(cf["CS"], cf["G"])]
            desc = "at the %s call `%s` in %s (a panic here unwinds): current_size equals the sum of recorded sizes" % (c.user_kind, c.callee, fr.body.path)
            e3.check("C16", key + ":CS=G", st, cons, desc, c.loc)
            l2l = ip_.gset(st, "l2l")
            e3.rec("C16", key + ":no-link-into-unowned-table", not l2l,
                   "at the %s call `%s` in %s: no link of the cache's seal/entries points into a table the cache does not own yet "
                   "(an unwind would free that table and leave the link dangling)" % (c.user_kind, c.callee, fr.body.path), c.loc)
            unl = ip_.gset(st, "unlinked")
            e3.rec("C16", key + ":no-unlinked-entry", not unl,
                   "at the %s call `%s` in %s: every entry inserted into the cache's table is already linked into its list"
                   % (c.user_kind, c.callee, fr.body.path), c.loc)
            unh = ip_.gset(st, "unhinged")
            e3.rec("C16", key + ":no-unhinged-entry", not unh,
                   "at the %s call `%s` in %s: no entry has been taken out of the list while it is still in the cache's table"
                   % (c.user_kind, c.callee, fr.body.path), c.loc)
            det = e3.detached(ip_, st)
            e3.rec("C16", key + ":table-not-detached", not det,
                   "at the %s call `%s` in %s: the table that backs the linked entries is still the cache's table (not handed to a "
                   "local whose destructor would free it on unwind)%s" % (c.user_kind, c.callee, fr.body.path, (": " + det) if det else ""), c.loc)
            # C01 over histories with caught panics: an unwind out of this call ends the operation here; every later operation that
            # returns must still see current_size <= max_size, so the bound has to hold at every point where user code runs
            # (exempt: user code run by `mutate` after the closure has returned -- the value has already grown, so the honest total
            #  exceeds the limit until the ejection is complete; C02 and C01 cannot both hold there and C16 promises the bound only
            #  for a panic of the closure itself)
            if not (ep_name == "mutate" and e3._closure_done(ip_)):
                e3.check("C01", key + ":bound-at-unwind-point", st, [le(cf["CS"], cf["MS"])],
                         "at the %s call `%s` in %s (a panic here unwinds and the cache stays in use): current_size <= max_size"
                         % (c.user_kind, c.callee, fr.body.path), c.loc)
            if c.user_kind == "closure" and closure_bound:
                e3.check("C16", key + ":CS<=MS", st, [le(cf["CS"], cf["MS"])],
                         "at the user closure call in %s: the memory bound holds (a panic in the closure leaves it intact)" % fr.body.path, c.loc)
        ip.hooks["user_call"] = on_user_call

    def _closure_done(self, ip):
        return any(k == "user_call" and info.get("kind") == "closure" for (k, info) in ip.events)

    def detached(self, ip, st):
        """the original table (tid 0) is no longer installed in the cache while a local still holds its entries"""
        cf = self.cache_fields(st)
        if cf is None or cf["tid"] == ("tid", 0):
            return None
        for oid, v in st.store.items():
            if not (isinstance(v, tuple) and v and v[0] == "struct"):
                continue
            if oid[0] != "L":
                continue
            for tv in self._tables_in(v, 0):
                if tv[1] == RAWTABLE and tv[2].get("#tid") == ("tid", 0) and is_int(tv[2].get("N")) and not st.num.entails(eq(tv[2]["N"][1], 0)):
                    return "local _%d holds the original table with entries" % oid[2]
                if tv[1] in ("hashbrown::raw::RawIntoIter", "hashbrown::raw::RawDrain") and tv[2].get("#from") == ("tid", 0) \
                        and is_int(tv[2].get("Rn")) and not st.num.entails(eq(tv[2]["Rn"][1], 0)):
                    return "local _%d iterates the original table and still holds entries" % oid[2]
        return None

    def _tables_in(self, v, depth):
        out = []
        if depth > 4 or not isinstance(v, tuple):
            return out
        if v[0] == "struct":
            if v[1] in (RAWTABLE, "hashbrown::raw::RawIntoIter", "hashbrown::raw::RawDrain"):
                return [v]
            for x in v[2].values():
                out += self._tables_in(x, depth + 1)
        elif v[0] == "enum":
            for pay in v[3].values():
                for x in pay.values():
                    out += self._tables_in(x, depth + 1)
        return out

    # ------------------------------------------------------------------ running
    def run_ep(self, b, st, args, ip):
        t0 = time.time()
        try:
            outs = ip.call_body(b, args, st, ())
            return outs
        except Unsupported as e:
            self.rec("E3", "unsupported:%s" % b.path, False, "abstract interpretation of `%s` gave up: %s" % (b.path, e), span_str(b.span))
            return None
        except RecursionError as e:
            self.rec("E3", "unsupported:%s" % b.path, False, "abstract interpretation of `%s` recursed too deep" % b.path, span_str(b.span))
            return None
        finally:
            self.stats[b.path] = round(time.time() - t0, 2)

    def mk_args(self, ip, st, b, first):
        args = [first] if first is not None else []
        ins = b.j["inputs"][(1 if first is not None else 0):]
        for t in ins:
            v = ip.fresh_of_ty(st, t, "arg")
            args.append(v)
            if is_int(v):
                ip.ref_syms = list(ip.ref_syms) + list(v[1].t)
        return args

    def run_all(self):
        r = self.r
        ctx = self.ctx
        for b in r.pub_methods():
            ins = b.j["inputs"]
            recv = ins[0] if ins else None
            if recv is not None and recv.get("k") == "ref" and recv.get("mut") and r.is_cache_ty(recv["ty"]):
                self.run_mut_method(b)
            elif recv is None or not (r.is_cache_ty(recv) or (recv.get("k") == "ref" and r.is_cache_ty(recv["ty"]))):
                if r.is_cache_ty(b.j["output"]):
                    self.run_constructor(b)
        cl = r.trait_method("std::clone::Clone", "clone")
        if cl is not None:
            self.run_clone(cl)
        self.run_drain_protocol()
        self.run_owning_iter_drop()

    # ---- &mut self methods
    def run_mut_method(self, b):
        r = self.r
        ip = Interp(self.ctx)
        name = b.name
        self.install_hooks(ip, name, closure_bound=(name in ("mutate", "retain")))
        st = self.entry_state(ip)
        args = self.mk_args(ip, st, b, ("ptr", CACHE0, ()))
        # remember symbolic inputs
        arg_vals = list(args)
        outs = self.run_ep(b, st, args, ip)
        self.unmodelled |= ip.unmodelled
        if outs is None:
            return
        self.exit_checks(b, outs, name)
        self.list_ghost_checks(ip, b, outs, name)
        self.sub_checks(ip, name)
        self.add_checks(ip, name)
        self.insert_inv_checks(ip, name)
        self.eviction_checks(ip, b, name, arg_vals)
        if name in ("insert", "try_insert"):
            self.classify_insert(b, outs, name, arg_vals)
        if name == "mutate":
            self.classify_mutate(b, outs, ip)
        if name in ("reserve", "try_reserve", "shrink_to", "shrink_to_fit"):
            self.capacity_checks(b, outs, name, arg_vals)
        self.alloc_checks(ip, b, name, arg_vals)
        self.insert_site_checks(ip, name)
        if name == "drain":
            pass

    def exit_checks(self, b, outs, name, oid=CACHE0, what="self"):
        if not outs:
            self.rec("C01", "%s:no-normal-exit" % name, True, "`%s` has no feasible normal exit (diverges)" % name)
            return
        for i, (rv, s) in enumerate(outs):
            sig = self.sig_str(rv)
            cf = self.cache_fields(s, oid)
            if cf is None:
                self.rec("C01", "%s:exit[%s]:untracked" % (name, sig), False,
                         "at exit `%s` of `%s` the cache fields are no longer tracked integers (analysis lost them)" % (sig, b.path), span_str(b.span))
                continue
            self.check("C01", "%s:exit[%s]:CS<=MS" % (name, sig), s, [le(cf["CS"], cf["MS"])],
                       "after `%s` returns %s: current_size <= max_size" % (name, sig), span_str(b.span))
            self.check("C02", "%s:exit[%s]:CS=G" % (name, sig), s, [eq(cf["CS"], cf["G"])],
                       "after `%s` returns %s: current_size equals the sum of the sizes recorded in the table's entries" % (name, sig), span_str(b.span))
            # entry invariant for entries whose size field was rewritten (mutate)
            for eo, ev in s.store.items():
                if eo[0] == "E" and ev[0] == "struct" and ev[1] == self.r.entry and ev[2].get("#tid") == cf["tid"] and cf["tid"] is not None:
                    pass

    PROMOTING = ("insert", "try_insert", "get", "get_entry", "get_lru", "touch", "mutate")

    def success(self, name, rv):
        """does this exit report success (hit / inserted)?  None = cannot tell from the return value (touch)"""
        sg = self.sig_str(rv)
        if name in ("insert", "try_insert"):
            return sg.startswith("Ok")
        if name in ("get", "get_entry", "get_lru"):
            return sg.startswith("Some")
        if name == "mutate":
            return sg == "Ok(Some)"
        return None

    def list_ghost_checks(self, ip, b, outs, name):
        loc = span_str(b.span)
        for (rv, s) in outs:
            sig = self.sig_str(rv)
            unl = ip.gset(s, "unlinked")
            self.rec("C07", "%s:exit[%s]:inserted-entries-linked" % (name, sig), not unl,
                     "when `%s` returns %s every entry it inserted into the cache's table has been linked into the list" % (name, sig), loc)
            unh = ip.gset(s, "unhinged")
            self.rec("C07", "%s:exit[%s]:no-unhinged-entry" % (name, sig), not unh,
                     "when `%s` returns %s every entry of the table is in the list (none was unlinked and left in the table)" % (name, sig), loc)
            fr_ = ip.gset(s, "freed_read")
            self.rec("C07", "%s:exit[%s]:no-read-of-freed-entry" % (name, sig), not fr_,
                     "on the way to `%s` returning %s no entry was read through a handle into a table whose allocation had already been released "
                     "(reallocated and dropped)" % (name, sig), loc, {"fields": sorted(fr_)} if fr_ else None)
            sw = ip.gset(s, "stale_write")
            self.rec("C07", "%s:exit[%s]:no-write-through-stale-handle" % (name, sig), not sw,
                     "on the way to `%s` returning %s nothing was written through a handle to an entry that may already have left its table "
                     "(removed, evicted or relocated)" % (name, sig), loc, {"fields": sorted(sw)} if sw else None)
            rel = ip.gset(s, "relinked")
            for pr_ in ("C05", "C07"):
                self.rec(pr_, "%s:exit[%s]:spliced-nodes-were-unlinked" % (name, sig), not rel,
                         "on the way to `%s` returning %s every node spliced into the list had been taken out of it before (or was new)"
                         % (name, sig), loc, {"what": sorted(rel)} if rel else None)
            l2l = ip.gset(s, "l2l")
            self.rec("C07", "%s:exit[%s]:no-link-into-unowned-table" % (name, sig), not l2l,
                     "when `%s` returns %s no link points into a table the cache does not own" % (name, sig), loc)
            may = ip.gset(s, "maypromoted")
            must = ip.gset(s, "promoted")
            found = ip.gset(s, "found")
            if name in self.PROMOTING:
                succ = self.success(name, rv)
                if succ is False:
                    self.rec("C05", "%s:exit[%s]:failure-does-not-promote" % (name, sig), not may,
                             "when `%s` returns %s (miss / rejected) no entry has been moved in the recency order" % (name, sig), loc)
                else:
                    # every entry that a lookup found on this path must have been promoted (hit => most-recently-used)
                    pending = [str(e) for e in ip.gset(s, "pending")]
                    self.rec("C05", "%s:exit[%s]:hit-promotes" % (name, sig), not pending,
                             "when `%s` returns %s the entry it found has been made most-recently-used on every path" % (name, sig), loc,
                             {"found_but_not_promoted_on_some_path": pending} if pending else None)
                    if succ is True and name in ("insert", "try_insert", "get_lru"):
                        self.rec("C05", "%s:exit[%s]:success-promotes" % (name, sig), bool(ip.gset(s, "promoted_any")),
                                 "when `%s` returns %s an entry has been linked at the most-recently-used end on every path" % (name, sig), loc)
            else:
                self.rec("C05", "%s:exit[%s]:does-not-promote" % (name, sig), not may,
                         "`%s` never moves an entry to the most-recently-used end" % name, loc,
                         {"may_promote": [str(x) for x in may]} if may else None)

    def sig_str(self, rv):
        sg = enum_sig(rv)
        if sg is None:
            return rv[0] if rv[0] != "unit" else "()"

        def f(x):
            if x is None:
                return "?"
            name, var, inner = x
            s = var or "?"
            if inner:
                s += "(" + ",".join(f(y[1]) for y in inner) + ")"
            return s
        return f(sg)

    def sub_checks(self, ip, name):
        n = 0
        for key, o in ip.obligs.items():
            if key[0] != "sub":
                continue
            n += 1
            chain = "/".join(p.split("::")[-1] for p in key[1][-3:])
            k = "%s:sub@%s#%d" % (name, chain, n)
            self.rec("C01", k, o["ok"], "in `%s` (via %s): %s" % (name, chain, o["desc"]), o["loc"],
                     {"not_entailed": o["failed"]} if o["failed"] else None, o.get("vacuous", False))

    def add_checks(self, ip, name):
        n = 0
        seen = {}
        for key, o in ip.obligs.items():
            if key[0] != "add":
                continue
            chain_full = key[1]
            # A-size: the size estimate of one pair (entry_size / mem_size bodies) is assumed representable
            if any(p.split("::")[-1] in ("entry_size", "mem_size", "new") and ("entry" in p or "mem_size" in p) for p in chain_full[-2:]):
                continue
            chain = "/".join(p.split("::")[-1] for p in chain_full[-3:])
            base = "%s:add->%s@%s" % (name, key[2], chain)
            seen[base] = seen.get(base, 0) + 1
            n += 1
            k = base if seen[base] == 1 else "%s#%d" % (base, seen[base])
            self.rec("C01", k, o["ok"], "in `%s` (via %s): %s" % (name, chain, o["desc"]), o["loc"],
                     {"not_entailed": o["failed"]} if o["failed"] else None, o.get("vacuous", False))

    def insert_inv_checks(self, ip, name):
        n = 0
        for key, o in ip.obligs.items():
            if key[0] != "entry_inv_at_insert":
                continue
            n += 1
            chain = "/".join(p.split("::")[-1] for p in key[1][-3:])
            self.rec("C02", "%s:entry-size-at-insert@%s" % (name, chain), o["ok"], "in `%s` (via %s): %s" % (name, chain, o["desc"]), o["loc"],
                     {"not_entailed": o["failed"]} if o["failed"] else None, o.get("vacuous", False))

    # ---- evictions
    def eviction_checks(self, ip, b, name, arg_vals):
        r = self.r
        for info in [info for (k, info) in ip.events if k == "table_remove" and info.get("mru")]:
            chain = "/".join(p.split("::")[-1] for p in info["chain"][-4:])
            if name in ("insert", "mutate", "set_max_size", "try_insert"):
                self.rec("C03", "%s:evicts-from-mru-end@%s" % (name, chain), False,
                         "`%s` removes the entry at the most-recently-used end: eviction must take the least-recently-used entries first" % name,
                         info["loc"])
        evs = [info for (k, info) in ip.events if k == "table_remove" and info.get("lru")]
        allowed = ("insert", "mutate", "set_max_size")
        explicit = ("remove_lru", "retain")    # removal of the LRU-side entry on request (remove_lru) / on the predicate's verdict (retain)
        for i, info in enumerate(evs):
            st = info["state"]
            cf = self.cache_fields(st)
            chain = "/".join(p.split("::")[-1] for p in info["chain"][-4:])
            if name in explicit:
                continue
            if name not in allowed:
                self.rec("C03", "%s:evicts@%s" % (name, chain), False,
                         "`%s` removes the least-recently-used entry without being asked to (only insert, mutate and set_max_size may evict)" % name,
                         info["loc"])
                continue
            if cf is None:
                self.rec("C03", "%s:eviction-necessity@%s" % (name, chain), False, "eviction site reached with untracked cache fields", info["loc"])
                continue
            if name == "insert":
                self.rec("C03", "%s:dedupe-before-eviction@%s" % (name, chain), bool(ip.gset(st, "keyed_removal_done")),
                         "in insert the entry stored under the same key has been taken out (its size freed) before anything is evicted", info["loc"])
            if name == "mutate":
                pend = ip.gset(st, "pending")
                self.rec("C03", "%s:promote-before-eviction@%s" % (name, chain), not pend,
                         "in mutate the mutated entry has been made most-recently-used before anything is evicted (it cannot evict itself)", info["loc"])
                prom = [m for m in ip.gset(st, "promoted") if isinstance(m, tuple) and m and m[0] == "E"]
                spared = bool(prom) and all(m in (info.get("distinct") or ()) for m in prom)
                self.rec("C03", "%s:spares-mutated-entry@%s" % (name, chain), spared or bool(pend),
                         "the entry ejected here during mutate is never the mutated entry itself: when the least-recently-used entry is reached "
                         "the numeric state excludes that it is the (promoted) mutated one, i.e. that it is alone in the list and "
                         "current_size still exceeds the target", info["loc"])
            if name == "insert":
                size = self.incoming_size(ip, st, arg_vals)
                if size is None:
                    self.rec("C03", "%s:eviction-necessity@%s" % (name, chain), False, "cannot identify the incoming entry's size", info["loc"])
                    continue
                # the incoming entry is not in the table yet: does not fit <=> CS + size > MS
                cons = [gt(cf["CS"] + size, cf["MS"])]
                desc = "an entry is evicted during insert only while current_size + entry_size(new) > max_size"
            elif name == "mutate":
                # growth of the mutated entry that is not yet part of current_size: its size as measured now minus its recorded size
                # (0 once the entry's size field has been rewritten)
                pend_growth = self.unaccounted_growth(ip, st)
                cons = [gt(cf["CS"] + pend_growth, cf["MS"])]
                desc = "an entry is evicted during mutate only while current_size (including the growth of the mutated entry) > max_size"
            else:
                lim = arg_vals[1][1] if len(arg_vals) > 1 and is_int(arg_vals[1]) else None
                if lim is None:
                    self.rec("C03", "%s:eviction-necessity@%s" % (name, chain), False, "new limit is not a tracked integer", info["loc"])
                    continue
                cons = [gt(cf["CS"], lim)]
                desc = "an entry is evicted during set_max_size only while current_size > the new limit"
            self.check("C03", "%s:eviction-necessity@%s" % (name, chain), st, cons, desc, info["loc"])

    def unaccounted_growth(self, ip, st):
        r = self.r
        cands = [m for m in (ip.gset(st, "promoted") | ip.gset(st, "pending")) if isinstance(m, tuple) and m and m[0] == "E"]
        if len(cands) != 1:
            return Lin.const(0)
        mv = st.store.get(cands[0])
        if mv is None or mv[0] != "struct" or not is_int(mv[2].get(r.E_SIZE)):
            return Lin.const(0)
        k, v = mv[2].get(r.E_KEY), mv[2].get(r.E_VAL)
        if not (k and v and k[0] == "opq" and v[0] == "opq"):
            return Lin.const(0)
        true_size = heap_of(ip, st, k[1]) + heap_of(ip, st, v[1]) + Lin.sym("sz[%s]" % ip.entry_ty_str())
        return true_size - mv[2][r.E_SIZE][1]

    def incoming_size(self, ip, st, arg_vals):
        """entry_size of the (key, value) arguments: heap(key) + heap(value) + size_of::<Entry>()"""
        if len(arg_vals) >= 3 and arg_vals[1][0] == "opq" and arg_vals[2][0] == "opq":
            sz = Lin.sym("sz[%s]" % ip.entry_ty_str())
            return heap_of(ip, st, arg_vals[1][1]) + heap_of(ip, st, arg_vals[2][1]) + sz
        return None

    # ---- insert / try_insert classification (C10)
    def classify_insert(self, b, outs, name, arg_vals):
        r = self.r
        ip_dummy = Interp(self.ctx)
        for (rv, s) in outs:
            sig = self.sig_str(rv)
            cf = self.cache_fields(s)
            size = None
            if arg_vals[1][0] == "opq" and arg_vals[2][0] == "opq":
                size = heap_of(ip_dummy, s, arg_vals[1][1]) + heap_of(ip_dummy, s, arg_vals[2][1]) + Lin.sym("sz[%s]" % ip_dummy.entry_ty_str())
            if size is None or cf is None:
                self.rec("C10", "%s:exit[%s]:untracked" % (name, sig), False, "cannot relate exit %s of %s to entry_size(key, value)" % (sig, name))
                continue
            MS0, CS0, G0, N0 = Lin.sym("MS0"), Lin.sym("CS0"), Lin.sym("G0"), Lin.sym("N0")
            loc = span_str(b.span)
            if rv[0] == "enum" and rv[2] == "Err":
                err = rv[3]["Err"].get("0")
                var = err[2] if err and err[0] == "enum" else None
                pay = err[3].get(var, {}) if var else {}
                # atomicity: nothing changed
                self.check("C10", "%s:exit[%s]:atomic" % (name, sig), s,
                           [eq(cf["CS"], CS0), eq(cf["MS"], MS0), eq(cf["G"], G0), eq(cf["N"], N0)],
                           "a failing %s (%s) leaves current_size, max_size, the table's size sum and len untouched" % (name, var), loc)
                same_tab = cf["tid"] == ("tid", 0)
                self.rec("C10", "%s:exit[%s]:same-table" % (name, sig), same_tab, "a failing %s (%s) does not replace the table" % (name, var), loc)
                # ... nor the usage order: no entry was spliced to the most-recently-used position on the way
                moved = s.store.get(("G", "maypromoted"), frozenset())
                self.rec("C10", "%s:exit[%s]:order-untouched" % (name, sig), not moved,
                         "a failing %s (%s) has not moved any entry within the usage order" % (name, var), loc)
                # the very pair comes back
                kv_ok = pay.get("key") == arg_vals[1] and pay.get("value") == arg_vals[2]
                self.rec("C10", "%s:exit[%s]:returns-the-pair" % (name, sig), kv_ok,
                         "the error `%s` of %s carries the very key and value that were passed in" % (var, name), loc,
                         None if kv_ok else {"key": str(pay.get("key")), "value": str(pay.get("value"))})
                if var == "EntryTooLarge":
                    self.check("C10", "%s:exit[%s]:condition" % (name, sig), s, [gt(size, MS0)],
                               "%s returns EntryTooLarge only if entry_size(key, value) > max_size" % name, loc)
                    cons = []
                    if is_int(pay.get("entry_size")):
                        cons.append(eq(pay["entry_size"][1], size))
                    if is_int(pay.get("max_size")):
                        cons.append(eq(pay["max_size"][1], MS0))
                    self.check("C10", "%s:exit[%s]:payload" % (name, sig), s, cons if len(cons) == 2 else [eq(Lin.const(1), Lin.const(0))],
                               "EntryTooLarge carries entry_size = entry_size(key, value) and max_size = max_size()", loc)
                elif var == "WouldEjectLru":
                    self.check("C10", "%s:exit[%s]:condition" % (name, sig), s, [le(size, MS0), gt(size, MS0 - CS0)],
                               "try_insert returns WouldEjectLru only if entry_size <= max_size and entry_size > max_size - current_size", loc)
                    cons = []
                    if is_int(pay.get("entry_size")):
                        cons.append(eq(pay["entry_size"][1], size))
                    if is_int(pay.get("free_memory")):
                        cons.append(eq(pay["free_memory"][1], MS0 - CS0))
                    self.check("C10", "%s:exit[%s]:payload" % (name, sig), s, cons if len(cons) == 2 else [eq(Lin.const(1), Lin.const(0))],
                               "WouldEjectLru carries entry_size = entry_size(key, value) and free_memory = max_size - current_size", loc)
                elif var == "OccupiedEntry":
                    self.check("C10", "%s:exit[%s]:condition" % (name, sig), s, [le(size, MS0 - CS0)],
                               "try_insert returns OccupiedEntry only if the entry would fit into the free memory (size checks take precedence)", loc)
                    present = any(k == "find_some" for k in s.notes)
                else:
                    self.rec("C10", "%s:exit[%s]:unknown-variant" % (name, sig), False, "unexpected error variant %s" % var, loc)
            elif rv[0] == "enum" and rv[2] == "Ok":
                if name == "insert":
                    self.check("C10", "%s:exit[%s]:condition" % (name, sig), s, [le(size, MS0)],
                               "insert succeeds only if entry_size(key, value) <= max_size (otherwise EntryTooLarge)", loc)
                else:
                    self.check("C10", "%s:exit[%s]:condition" % (name, sig), s, [le(size, MS0 - CS0)],
                               "try_insert succeeds only if entry_size(key, value) <= max_size - current_size", loc)
                    self.check("C10", "%s:exit[%s]:no-eviction" % (name, sig), s, [eq(cf["N"], N0 + 1), eq(cf["CS"], CS0 + size)],
                               "a successful try_insert adds exactly the new entry and evicts nothing", loc)

    # ---- mutate classification (C11)
    def classify_mutate(self, b, outs, ip):
        loc = span_str(b.span)
        MS0, CS0, G0, N0 = Lin.sym("MS0"), Lin.sym("CS0"), Lin.sym("G0"), Lin.sym("N0")
        sizes = [info.get("ret") for (k, info) in ip.events if k == "user_call" and info.get("kind") == "size" and info.get("in", "").endswith("::mutate")]
        closures = [info for (k, info) in ip.events if k == "user_call" and info.get("kind") == "closure" and info.get("in", "").endswith("::mutate")]
        self.rec("C11", "mutate:closure-called-once", len(closures) == 1,
                 "mutate calls the user closure at exactly one site (%d found)" % len(closures), loc)
        seen = set()
        for (rv, s) in outs:
            sig = self.sig_str(rv)
            cf = self.cache_fields(s)
            seen.add(sig)
            if cf is None:
                self.rec("C11", "mutate:exit[%s]:untracked" % sig, False, "cache fields untracked at exit %s" % sig, loc)
                continue
            if rv[0] == "enum" and rv[2] == "Err":
                err = rv[3]["Err"].get("0")
                var = err[2] if err and err[0] == "enum" else None
                pay = err[3].get(var, {}) if var else {}
                cons = []
                ok_fields = all(is_int(pay.get(k)) for k in ("old_entry_size", "new_entry_size", "max_size"))
                if ok_fields:
                    new, old, ms = pay["new_entry_size"][1], pay["old_entry_size"][1], pay["max_size"][1]
                    self.check("C11", "mutate:exit[%s]:condition" % sig, s, [gt(new, MS0), le(old, MS0)],
                               "mutate returns EntryTooLarge only if the grown entry's size exceeds max_size (and the old size did not)", loc)
                    self.check("C11", "mutate:exit[%s]:max_size" % sig, s, [eq(ms, MS0)], "MutateError.max_size = max_size()", loc)
                    if len(sizes) == 2 and sizes[0] is not None and sizes[1] is not None:
                        self.check("C11", "mutate:exit[%s]:sizes" % sig, s, [eq(new - old, sizes[1] - sizes[0])],
                                   "new_entry_size - old_entry_size equals the change of the value's mem_size across the closure call", loc)
                    else:
                        self.rec("C11", "mutate:exit[%s]:sizes" % sig, False, "expected two size measurements around the closure, found %d" % len(sizes), loc)
                else:
                    self.rec("C11", "mutate:exit[%s]:payload" % sig, False, "MutateError payload fields are not tracked integers", loc)
                # only the mutated entry left: one removal
                self.check("C11", "mutate:exit[%s]:only-that-entry-removed" % sig, s, [eq(cf["N"], N0 - 1), eq(cf["MS"], MS0)],
                           "when mutate fails exactly one entry (the mutated one) has left the cache", loc)
                if ok_fields:
                    self.check("C11", "mutate:exit[%s]:size-released" % sig, s, [eq(cf["CS"], CS0 - pay["old_entry_size"][1])],
                               "when mutate fails current_size drops by the entry's old size", loc)
            elif rv[0] == "enum" and rv[2] == "Ok":
                inner = rv[3]["Ok"].get("0")
                ivar = inner[2] if inner and inner[0] == "enum" else None
                if ivar == "None":
                    self.check("C11", "mutate:exit[%s]:absent-noop" % sig, s, [eq(cf["CS"], CS0), eq(cf["G"], G0), eq(cf["N"], N0), eq(cf["MS"], MS0)],
                               "mutate on an absent key changes nothing", loc)
                    called = [c for c in closures]
                elif ivar == "Some":
                    # the accounted size of every tracked in-table entry equals heap(key)+heap(value)+size_of (entry invariant re-established)
                    bad = []
                    n = 0
                    mutated = set(x for x in (ip.gset(s, "promoted") | ip.gset(s, "pending") | ip.gset(s, "found")) if isinstance(x, tuple))
                    for eo, ev in s.store.items():
                        # entries whose size field was rewritten, and the entry the lookup found (rewritten or not: a path that leaves the
                        # recorded size alone is right exactly if the measured size did not change)
                        if eo[0] == "E" and ev[0] == "struct" and ev[1] == self.r.entry and (ev[2].get("#dirty") or eo in mutated) \
                                and not (isinstance(ev[2].get("#tid"), tuple) and ev[2]["#tid"] and ev[2]["#tid"][0] in ("stale", "freed")
                                         and not ev[2].get("#dirty")):
                            n += 1
                            inv = ip.entry_inv(s, ev[2].get(self.r.E_SIZE), ev[2].get(self.r.E_KEY), ev[2].get(self.r.E_VAL))
                            if inv is None or not s.num.entails(inv):
                                bad.append(str(eo))
                            if is_int(ev[2].get(self.r.E_SIZE)) and not s.num.entails(le(ev[2][self.r.E_SIZE][1], MS0)):
                                bad.append("size>max:" + str(eo))
                    if n == 0:
                        bad.append("neither the entry found by the lookup nor one with a rewritten size is tracked at this exit")
                    self.rec("C11", "mutate:exit[%s]:re-accounted" % sig, not bad,
                             "after a successful mutate the entry's recorded size is heap(key) + heap(value') + size_of::<Entry>() and <= max_size"
                             " (%d entr%s checked)" % (n, "y" if n == 1 else "ies"), loc, {"violating": bad} if bad else None)
        for need in ("Ok(None)", "Ok(Some)", "Err(EntryTooLarge)"):
            if need not in seen:
                self.rec("C11", "mutate:exit[%s]:missing" % need, False, "mutate has no exit of kind %s (found %s)" % (need, sorted(seen)), loc)

    # ---- capacity
    def capacity_checks(self, b, outs, name, arg_vals):
        loc = span_str(b.span)
        MS0, CS0, G0, N0 = Lin.sym("MS0"), Lin.sym("CS0"), Lin.sym("G0"), Lin.sym("N0")
        for (rv, s) in outs:
            sig = self.sig_str(rv)
            cf = self.cache_fields(s)
            if cf is None:
                self.rec("C13", "%s:exit[%s]:untracked" % (name, sig), False, "cache fields untracked", loc)
                continue
            self.check("C13", "%s:exit[%s]:transparent" % (name, sig), s, [eq(cf["CS"], CS0), eq(cf["MS"], MS0), eq(cf["G"], G0), eq(cf["N"], N0)],
                       "%s changes neither current_size, max_size, the sum of entry sizes nor len" % name, loc)
            is_err = rv[0] == "enum" and rv[2] == "Err"
            if is_err:
                self.rec("C13", "%s:exit[%s]:same-table" % (name, sig), cf["tid"] == ("tid", 0), "a failing %s keeps the original table" % name, loc)
                continue
            if name in ("reserve", "try_reserve") and len(arg_vals) > 1 and is_int(arg_vals[1]) and cf["cap"] is not None and is_int(cf["cap"]):
                self.check("C13", "%s:exit[%s]:capacity" % (name, sig), s, [ge(cf["cap"][1], N0 + arg_vals[1][1])],
                           "after %s(additional): capacity >= len + additional" % name, loc)
            if name == "shrink_to" and len(arg_vals) > 1 and is_int(arg_vals[1]) and cf["cap"] is not None and is_int(cf["cap"]):
                self.check("C13", "%s:exit[%s]:capacity" % (name, sig), s, [ge(cf["cap"][1], N0)],
                           "after shrink_to: capacity >= len", loc)

    def insert_site_checks(self, ip, name):
        for (k, info) in ip.events:
            if k != "table_insert":
                continue
            chain = "/".join(p.split("::")[-1] for p in info["chain"][-3:])
            self.rec("C04", "%s:insert-site@%s" % (name, chain), info["justified"] is not None,
                     "in `%s` (via %s) an entry is inserted into the cache's table only for a key that is known not to be in it%s"
                     % (name, chain, (": " + info["justified"]) if info["justified"] else ""), info["loc"])

    def alloc_checks(self, ip, b, name, arg_vals):
        """what a (re)allocation of the cache's table asks for (C13.2 / C13.4)"""
        evs = [info for (k, info) in ip.events if k == "table_alloc"]
        for i, info in enumerate(evs):
            st = info["state"]
            cf = self.cache_fields(st)
            chain = "/".join(p.split("::")[-1] for p in info["chain"][-3:])
            req = info["request"]
            key = "%s:alloc@%s" % (name, chain)
            if cf is None:
                continue
            cap = cf["cap"][1] if (cf["cap"] is not None and is_int(cf["cap"])) else None
            if name in ("shrink_to", "shrink_to_fit"):
                if cap is None:
                    self.rec("C13", key + ":shrinks", False, "`%s` reallocates without having read the current capacity" % name, info["loc"])
                else:
                    self.check("C13", key + ":shrinks", st, [lt(req, cap), ge(req, cf["N"])],
                               "`%s` reallocates only to a capacity below the current one and not below len" % name, info["loc"])
            elif name in ("insert", "try_insert"):
                if cap is None:
                    self.rec("C13", key + ":doubling", False, "automatic growth in `%s` without having read the current capacity" % name, info["loc"])
                else:
                    ok = st.num.feasible() and (st.num.entails(eq(req, cap.scale(2))) or
                                                (st.num.entails(eq(cap, 0)) and st.num.entails(eq(req, 1))))
                    if not ok and st.num.feasible() and len(req.t) == 1 and req.c == 0:
                        (sname, coef), = req.t.items()
                        md = st.store.get(("M", sname))
                        if md is not None and coef == 1:
                            x, y = md
                            two = cap.scale(2)
                            ok = (st.num.entails(eq(x, two)) and st.num.entails(eq(y, 1))) or \
                                 (st.num.entails(eq(y, two)) and st.num.entails(eq(x, 1)))
                    ok = ok and st.num.entails(eq(cap, cf["N"]))
                    self.rec("C13", key + ":doubling", ok or not st.num.feasible(),
                             "automatic growth in `%s` happens only when capacity = len (the no-grow insert failed) and requests "
                             "max(2 * capacity, 1)" % name, info["loc"], None if ok else {"request": str(req), "capacity": str(cap)})
            elif name in ("reserve", "try_reserve"):
                add = arg_vals[1][1] if len(arg_vals) > 1 and is_int(arg_vals[1]) else None
                if add is not None:
                    self.check("C13", key + ":request", st, [ge(req, cf["N"] + add)],
                               "when `%s` reallocates it requests at least len + additional" % name, info["loc"])
            elif name not in ("clear",):
                self.rec("C13", key + ":unexpected-reallocation", False,
                         "`%s` allocates a new table (only reserve, try_reserve, shrink_to, shrink_to_fit and growing insertions may)" % name, info["loc"])

    # ---- constructors
    def run_constructor(self, b):
        ip = Interp(self.ctx)
        st = St()
        args = self.mk_args(ip, st, b, None)
        outs = self.run_ep(b, st, args, ip)
        self.unmodelled |= ip.unmodelled
        if outs is None:
            return
        for (rv, s) in outs:
            cf = self.cache_fields(s, val=rv)
            if cf is None:
                self.rec("C01", "%s:exit:untracked" % b.name, False, "constructor result is not a tracked cache value", span_str(b.span))
                continue
            ms_arg = args[0][1] if args and is_int(args[0]) else None
            self.check("C01", "%s:exit:CS<=MS" % b.name, s, [le(cf["CS"], cf["MS"])], "a fresh cache satisfies current_size <= max_size", span_str(b.span))
            self.check("C02", "%s:exit:empty" % b.name, s, [eq(cf["CS"], 0), eq(cf["G"], 0), eq(cf["N"], 0)],
                       "a fresh cache is empty with current_size 0", span_str(b.span))
            if ms_arg is not None:
                self.check("C01", "%s:exit:MS=arg" % b.name, s, [eq(cf["MS"], ms_arg)], "the constructor stores the requested max_size", span_str(b.span))

    # ---- clone
    def run_clone(self, b):
        ip = Interp(self.ctx)
        self.install_hooks(ip, "clone")
        st = self.entry_state(ip)
        outs = self.run_ep(b, st, [("ptr", CACHE0, ())], ip)
        self.unmodelled |= ip.unmodelled
        if outs is None:
            return
        MS0, CS0, G0, N0 = Lin.sym("MS0"), Lin.sym("CS0"), Lin.sym("G0"), Lin.sym("N0")
        loc = span_str(b.span)
        for (rv, s) in outs:
            cf = self.cache_fields(s, val=rv)
            src = self.cache_fields(s)
            if cf is None or src is None:
                self.rec("C14", "clone:exit:untracked", False, "the clone is not a tracked cache value", loc)
                continue
            self.check("C01", "clone:exit:CS<=MS", s, [le(cf["CS"], cf["MS"])], "the clone satisfies current_size <= max_size", loc)
            self.check("C02", "clone:exit:CS=G", s, [eq(cf["CS"], cf["G"])], "the clone's current_size equals the sum of the sizes of its entries "
                       "(premise P-list: the traversal visits exactly the source's entries)", loc)
            self.check("C14", "clone:exit:equal-figures", s, [eq(cf["CS"], CS0), eq(cf["MS"], MS0), eq(cf["N"], N0), eq(cf["G"], G0)],
                       "the clone has the source's current_size, max_size, len and size sum", loc)
            self.check("C14", "clone:exit:source-untouched", s, [eq(src["CS"], CS0), eq(src["MS"], MS0), eq(src["N"], N0), eq(src["G"], G0)],
                       "clone leaves the source's figures untouched", loc)
            if cf["cap"] is not None and is_int(cf["cap"]):
                srccap = src["cap"]
                if srccap is not None and is_int(srccap):
                    self.check("C14", "clone:exit:capacity", s, [ge(cf["cap"][1], srccap[1])], "the clone's capacity is at least the source's", loc)
                else:
                    self.rec("C14", "clone:exit:capacity", False, "the source's capacity was never read by clone", loc)
            else:
                self.rec("C14", "clone:exit:capacity", False, "the clone's table has no tracked capacity request", loc)
            self.rec("C14", "clone:exit:own-table", cf["tid"] != src["tid"], "the clone owns a table of its own", loc)
        self.insert_site_checks(ip, "clone")
        # the recorded sizes are copied, not re-measured: that they equal entry_size of the cloned pair is Clone's contract
        # (A-clone); what is decided is current_size = sum of *recorded* sizes, above.

    # ---- drain protocol
    def run_drain_protocol(self):
        r = self.r
        dr = r.method("drain")
        if dr is None:
            return
        ip = Interp(self.ctx)
        st = self.entry_state(ip)
        outs = self.run_ep(dr, st, [("ptr", CACHE0, ())], ip)
        self.unmodelled |= ip.unmodelled
        if not outs:
            return
        loc = span_str(dr.span)
        MS0 = Lin.sym("MS0")
        out_ty = dr.j["output"]
        drain_adt = out_ty.get("name") if out_ty.get("k") == "adt" else None
        for (rv, s) in outs:
            cf = self.cache_fields(s)
            if cf is None:
                self.rec("C17", "drain:post:untracked", False, "cache fields untracked after drain()", loc)
                continue
            # C17: the cache is already in the state the Drop impl would create (nothing owed by Drop)
            self.check("C17", "drain:post:cache-empty", s, [eq(cf["CS"], 0), eq(cf["G"], 0), eq(cf["N"], 0), eq(cf["MS"], MS0)],
                       "right after drain() returns, the cache is already empty (size 0, no entries registered): leaking the Drain cannot "
                       "leave moved-out entries owned by the cache", loc)
            self.check("C01", "drain:exit:CS<=MS", s, [le(cf["CS"], cf["MS"])], "after drain() current_size <= max_size", loc)
            self.check("C02", "drain:exit:CS=G", s, [eq(cf["CS"], cf["G"])], "after drain() current_size equals the table's size sum", loc)
            # iterate: next / next_back keep the cache's figures; Drop leaves an empty usable cache
            if drain_adt is None:
                continue
            dslot = ("O", "drain0")
            for mname, trait in (("next", "std::iter::Iterator"), ("next_back", "std::iter::DoubleEndedIterator"), ("drop", "std::ops::Drop")):
                mb = r.trait_method(trait, mname, drain_adt)
                if mb is None:
                    continue
                s2 = s.fork()
                s2.store[dslot] = rv
                ip2 = Interp(self.ctx)
                ip2.ctr = ip.ctr
                ip2.fid = ip.fid
                o2 = self.run_ep(mb, s2, [("ptr", dslot, ())], ip2)
                self.unmodelled |= ip2.unmodelled
                if o2 is None:
                    continue
                for (rv2, s3) in o2:
                    cf3 = self.cache_fields(s3)
                    if cf3 is None:
                        self.rec("C12", "drain.%s:untracked" % mname, False, "cache fields untracked after Drain::%s" % mname, span_str(mb.span))
                        continue
                    self.check("C12", "drain.%s:cache-stays-empty[%s]" % (mname, self.sig_str(rv2)), s3,
                               [eq(cf3["CS"], 0), eq(cf3["G"], 0), eq(cf3["N"], 0), eq(cf3["MS"], MS0)],
                               "Drain::%s leaves the drained cache empty with size 0 and its limit unchanged" % mname, span_str(mb.span))

    def run_owning_iter_drop(self):
        pass


def run(ctx):
    """returns dict with 'records', 'stats', 'unmodelled' (cached on disk)"""
    key = "%s-%s" % (ctx.info["tree_hash"], code_hash())
    path = os.path.join(cache_dir(), "e3-%s.json" % key)
    if os.path.exists(path):
        try:
            with open(path) as fh:
                d = json.load(fh)
            d["cached"] = True
            return d
        except Exception:
            pass
    t0 = time.time()
    e = E3(ctx)
    try:
        e.run_all()
        crashed = None
    except Exception as ex:
        crashed = traceback.format_exc()[-3000:]
    d = {"records": e.out, "stats": e.stats, "unmodelled": sorted(e.unmodelled), "wall_s": round(time.time() - t0, 2), "crashed": crashed,
         "cached": False}
    tmp = path + ".%d" % os.getpid()
    with open(tmp, "w") as fh:
        json.dump(d, fh)
    os.replace(tmp, path)
    for old in sorted((os.path.join(cache_dir(), f) for f in os.listdir(cache_dir()) if f.startswith("e3-")), key=os.path.getmtime)[:-8]:
        try:
            os.remove(old)
        except OSError:
            pass
    return d


def apply(ctx, res, prop, floor=None):
    """feed the E3 records of one property into a Result"""
    d = run(ctx)
    res.analysed["e3"] = {"wall_s": d["wall_s"], "cached": d["cached"], "entry_points": len(d["stats"]), "per_entry_point_s": d["stats"]}
    if d.get("crashed"):
        res.violate("E3:crashed", "the abstract interpreter crashed (fail closed): %s" % d["crashed"][-400:], None, {}, "E3")
    n = 0
    for rec in d["records"]:
        if rec["prop"] == "E3":
            # the interpreter gave up on an entry point: every property with obligations on that entry point fails closed
            ep = rec["key"].split("::")[-1]
            general = ("C01", "C02", "C05", "C07", "C16")
            specific = {"insert": ("C03", "C04", "C10", "C13"), "try_insert": ("C04", "C10", "C13"), "mutate": ("C03", "C11"),
                        "set_max_size": ("C03",), "retain": ("C15",), "reserve": ("C13", "C04"), "try_reserve": ("C13", "C04"),
                        "shrink_to": ("C13", "C04"), "shrink_to_fit": ("C13", "C04"), "clone": ("C14", "C04"), "drain": ("C12", "C17"),
                        "next": ("C12",), "next_back": ("C12",), "drop": ("C12", "C17")}
            if prop in general or prop in specific.get(ep, ()):
                res.violate("E3:" + rec["key"], rec["desc"], rec["loc"], {}, "E3 abstract interpreter")
            continue
        shared = (prop == "C02" and rec["prop"] == "C16" and rec["key"].endswith(":CS=G")) or \
                 (prop == "C01" and rec["prop"] == "C02" and (":exit" in rec["key"] or "entry-size-at-insert" in rec["key"])) or \
                 (prop == "C01" and rec["prop"] == "C11" and rec["key"].endswith(":re-accounted")) or \
                 (prop == "C03" and rec["prop"] == "C01" and rec["key"].split(":")[0] in ("insert", "mutate", "set_max_size") and rec["key"].endswith("CS<=MS")) or \
                 (prop == "C07" and rec["prop"] == "C16" and rec["key"].endswith(":no-unhinged-entry")) or \
                 (prop == "C07" and rec["prop"] == "C16" and (rec["key"].endswith(":no-link-into-unowned-table") or
                                                              rec["key"].endswith(":table-not-detached") or rec["key"].endswith(":no-unlinked-entry"))) or \
                 (prop == "C11" and rec["prop"] == "C03" and rec["key"].startswith("mutate:")) or \
                 (prop == "C11" and rec["prop"] == "C05" and rec["key"].startswith("mutate:") and rec["key"].endswith(":hit-promotes")) or \
                 (prop == "C10" and rec["prop"] in ("C02", "C16") and rec["key"].endswith(":CS=G")) or \
                 (prop == "C13" and rec["prop"] == "C05" and rec["key"].split(":")[0] in ("reserve", "try_reserve", "shrink_to", "shrink_to_fit")) or \
                 (prop == "C10" and rec["prop"] == "C01" and ":add->" in rec["key"] and rec["key"].split(":")[0] in ("insert", "try_insert")) or \
                 (prop == "C03" and rec["prop"] == "C10" and rec["key"].startswith("insert:exit[Err") and rec["key"].endswith(":atomic")) or \
                 (prop == "C03" and rec["prop"] == "C11" and rec["key"].endswith(":re-accounted"))
        if rec["prop"] != prop and not shared:
            continue
        n += 1
        res.count("%s E3 obligations" % prop)
        res.oblige(rec["desc"], rec["ok"], detail=rec.get("detail"), key="%s.E3:%s" % (prop, rec["key"]), loc=rec["loc"],
                   rule="E3 abstract interpretation", msg="not proved: %s%s" % (rec["desc"], (" -- not entailed: %s" % rec["detail"]) if rec.get("detail") else ""))
        if len(res.samples) < 8:
            res.sample({"obligation": rec["desc"], "key": rec["key"], "proved": rec["ok"]})
    for u in d.get("unmodelled", []):
        res.note("E3: external callee without abstract model: %s" % u)
    if floor is not None:
        res.floor("%s E3 obligations" % prop, n, floor)
    res.trusted.append("lmv/absmodels.py: abstract transformers of hashbrown RawTable / core / std (DESIGN.md 1.3)")
    res.trusted.append("premise P-list: following the LRU link from the seal visits exactly the table's entries once (list/table coherence, C07)")
    return d
