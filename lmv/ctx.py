"""Analysis context shared by all rule modules."""
from .facts import extract
from .callgraph import CallGraph
from .roles import Roles
from .effects import Effects


class Ctx:
    def __init__(self, repo=None, tier="quick", overflow_checks="on"):
        self.tier = tier
        self.repo = repo
        self.facts, self.info = extract(repo, overflow_checks)
        self.cg = CallGraph(self.facts)
        self.roles = Roles(self.facts, self.cg)
        self.eff = Effects(self.facts, self.cg, self.roles) if not self.roles.problems else None
        self._alt = None

    def alt(self):
        """release-like extraction (overflow checks off), thorough tier"""
        if self._alt is None:
            self._alt = Ctx(self.repo, self.tier, overflow_checks="off")
        return self._alt

    def require_roles(self, res):
        """fail closed if the structural anchors could not be identified"""
        if self.roles.problems:
            for p in self.roles.problems:
                res.violate("roles:" + p.split(":")[0] + ":" + str(abs(hash(p)) % 10000), p, None, {"roles": self.roles.summary()}, "roles")
            return False
        res.analysed["roles"] = self.roles.summary()
        return True
