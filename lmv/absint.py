"""E3: abstract interpreter over MIR (DESIGN.md Appendix A).

Forward abstract interpretation with
  * a field-sensitive store of abstract objects (frame locals, the cache, the seal, materialised entries, cursors),
  * a relational linear numeric domain (lmv/lin.py: conjunctions of linear constraints, Fourier-Motzkin entailment),
  * partitioning on enum discriminants (states whose live enum values have different variants are not joined),
  * ghost state per RawTable value: N (number of elements) and G (sum of the recorded sizes of its elements),
    changed only by the modelled table primitives and by stores to the size field of an entry known to be in that table,
  * a *traversal model* of the recency list (premise P-list): reading the seal's LRU/MRU link starts a cursor with ghost
    R = G(table), Rn = N(table); a cursor equal to the seal has R = Rn = 0, otherwise it denotes an entry of the table with
    size s <= R, and following the same link from that entry yields a cursor with R - s, Rn - 1,
  * context-sensitive inlining of crate-local callees and of closures at modelled higher-order calls,
  * joins at CFG merge points / loop heads by template candidates (x - y {<=,==} 0, x + y == z, over integer locations),
    each kept only if entailed by every incoming state (so loops converge: the constraint set only shrinks).
Only normal control flow is followed; at every user-call site a hook lets rules (C16) inspect the state the unwind would see.
"""
import itertools
import os
import time
from .lin import Lin, Num, le, lt, eq, ge, gt, as_lin, cstr
from .cfg import cfg_of
from .models import norm
from .facts import span_str, place_str

RAWTABLE = "hashbrown::raw::RawTable"
UNSIGNED = ("usize", "u8", "u16", "u32", "u64", "u128")
SIGNED = ("isize", "i8", "i16", "i32", "i64", "i128")

ENUM_VARIANTS = {
    "std::option::Option": ["None", "Some"],
    "std::result::Result": ["Ok", "Err"],
    "std::ops::ControlFlow": ["Continue", "Break"],
}


class Unsupported(Exception):
    pass


class St:
    """abstract state (functional style: fork() before mutation of a branch)"""

    def __init__(self):
        self.store = {}
        self.num = Num()
        self.notes = []

    def fork(self):
        s = St()
        s.store = dict(self.store)
        s.num = self.num.copy()
        s.notes = self.notes
        return s


def vint(l):
    return ("int", as_lin(l))


def is_int(v):
    return isinstance(v, tuple) and v and v[0] == "int"


def sfields(v):
    return v[2]


def mkstruct(name, fields):
    return ("struct", name, dict(fields))


def mkenum(name, variant, payload=None):
    return ("enum", name, variant, {variant: dict(payload or {})} if variant is not None else {})


class Interp:
    def __init__(self, ctx, max_depth=12):
        self.ctx = ctx
        self.f = ctx.facts
        self.cg = ctx.cg
        self.r = ctx.roles
        self.ctr = itertools.count(1)
        self.fid = itertools.count(1)
        self.obligs = {}          # key -> dict(ok, desc, detail, loc)
        self.events = []          # (kind, info) e.g. user calls
        self.hooks = {}           # name -> callable
        self.max_depth = max_depth
        self.unmodelled = set()
        self.ref_syms = ["CS0", "MS0", "G0", "N0", "UM"]   # entry-state symbols: always coordinates of joins
        self._splice_cache = {}
        self._unlink_cache = {}
        self.block_budget = 30000
        self.time_budget = int(os.environ.get("LMV_E3_TIME_BUDGET", "150"))     # seconds per entry point (fail closed beyond)
        self.t_start = time.time()
        self.stats = {"blocks": 0, "calls_inlined": 0, "joins": 0, "entail": 0, "states": 0}
        self.variant_names = dict(ENUM_VARIANTS)
        for n, a in self.f.adts.items():
            if a["kind"] == "enum":
                self.variant_names[n] = [v["name"] for v in a["variants"]]
        from . import absmodels
        self.models = absmodels.MODELS
        self.absmodels = absmodels

    # ------------------------------------------------------------------ symbols / fresh values
    def sym(self, tag):
        return "%s#%d" % (tag, next(self.ctr))

    def fresh_int(self, st, tag, nonneg=True):
        s = self.sym(tag)
        if nonneg:
            st.num.add(ge(Lin.sym(s), 0))
            st.num.add(le(Lin.sym(s), Lin.sym("UM")))     # UM = usize::MAX
        return vint(Lin.sym(s))

    def fresh_of_ty(self, st, ty, tag="v"):
        """ty: structured type dict or type string"""
        s = ty["s"] if isinstance(ty, dict) else str(ty)
        if isinstance(ty, dict) and ty.get("k") == "param":
            return ("opq", next(self.ctr))
        if isinstance(ty, dict) and ty.get("k") == "ref":
            o = self.new_oid("A")
            st.store[o] = self.fresh_of_ty(st, ty["ty"], tag)
            return ("ptr", o, ())
        if s in UNSIGNED:
            return self.fresh_int(st, tag, True)
        if s in SIGNED:
            return self.fresh_int(st, tag, False)
        if s == "bool":
            return ("bunk", next(self.ctr))
        if s == "()":
            return ("unit",)
        return ("unk", next(self.ctr), s)

    def new_oid(self, kind):
        return (kind, next(self.ctr))

    # ------------------------------------------------------------------ store access
    def load(self, st, oid, path, ty=None):
        v = st.store.get(oid)
        if v is None:
            v = ("unk", next(self.ctr), "?")
            st.store[oid] = v
        if not path:
            return v
        return self._nav(st, oid, v, path, ())

    def _nav(self, st, oid, v, path, done):
        step = path[0]
        rest = path[1:]
        if v[0] == "struct" and v[1] == self.r.entry and oid is not None and oid[0] == "E":
            t_ = v[2].get("#tid")
            if isinstance(t_, tuple) and t_ and t_[0] == "freed" and not str(step).startswith("#"):
                self.gadd(st, "freed_read", "%s" % (step,))
        # special: link fields of entries are modelled by the traversal model, not stored
        if v[0] == "struct" and v[1] == self.r.entry and step in self.r.links and step not in v[2]:
            res = self._read_link(st, oid, v, step, done)
            if rest:
                return self._nav(st, None, res, rest, done + (step,))
            return res
        if v[0] == "unk":
            # lazily give the unknown a shape
            if isinstance(step, str) and step.startswith("@"):
                v = ("enum", None, None, {})
            else:
                v = ("struct", None, {})
            if oid is not None:
                self._store_at(st, oid, done, v)
        if v[0] == "struct":
            f = v[2]
            if step not in f:
                nv = ("unk", next(self.ctr), "?")
                if oid is not None:
                    self._store_at(st, oid, done + (step,), nv)
                child = nv
            else:
                child = f[step]
            if not rest:
                return child
            return self._nav(st, oid, child, rest, done + (step,))
        if v[0] == "enum":
            if isinstance(step, str) and step.startswith("@"):
                vn = step[1:]
                pay = v[3].get(vn)
                if pay is None:
                    pay = {}
                child = ("struct", "@" + vn, pay)
                if not rest:
                    return child
                return self._nav_payload(st, oid, v, vn, rest, done)
            raise Unsupported("field %r of enum" % (step,))
        if v[0] == "clos":
            idx = int(step) if str(step).isdigit() else None
            if idx is not None and idx < len(v[2]):
                child = v[2][idx]
                if not rest:
                    return child
                return self._nav(st, None, child, rest, done + (step,))
        if v[0] == "ovf":
            if step == "0":
                child = v[1]
            else:
                child = ("ovfflag", v)
            if not rest:
                return child
            return self._nav(st, None, child, rest, done + (step,))
        # anything else: unknown
        return ("unk", next(self.ctr), "?")

    def _nav_payload(self, st, oid, ev, vn, rest, done):
        pay = ev[3].get(vn, {})
        step = rest[0]
        if step not in pay:
            nv = ("unk", next(self.ctr), "?")
            if oid is not None:
                self._store_at(st, oid, done + ("@" + vn, step), nv)
            child = nv
        else:
            child = pay[step]
        if len(rest) == 1:
            return child
        return self._nav(st, oid, child, rest[1:], done + ("@" + vn, step))

    def _store_at(self, st, oid, path, val):
        root = st.store.get(oid)
        st.store[oid] = self._upd(root, path, val)

    def _upd(self, v, path, val):
        if not path:
            return val
        step = path[0]
        if v is None or v[0] == "unk":
            if isinstance(step, str) and step.startswith("@"):
                v = ("enum", None, None, {})
            else:
                v = ("struct", None, {})
        if v[0] == "struct":
            f = dict(v[2])
            f[step] = self._upd(f.get(step), path[1:], val)
            return ("struct", v[1], f)
        if v[0] == "enum":
            vn = step[1:]
            pay = dict(v[3])
            inner = dict(pay.get(vn, {}))
            if len(path) == 1:
                # replacing the whole payload pseudo-struct
                if val[0] == "struct":
                    pay[vn] = dict(val[2])
                return ("enum", v[1], v[2], pay)
            inner[path[1]] = self._upd(inner.get(path[1]), path[2:], val)
            pay[vn] = inner
            return ("enum", v[1], v[2], pay)
        if v[0] == "clos":
            ups = list(v[2])
            i = int(step)
            ups[i] = self._upd(ups[i], path[1:], val)
            return ("clos", v[1], tuple(ups))
        # cannot update inside this value: replace by a struct
        return self._upd(("struct", None, {}), path, val)

    def write(self, st, oid, path, val):
        """store with side effects of the ghost model (size field of an in-table entry)"""
        r = self.r
        if path and path[-1] == r.E_SIZE:
            root = st.store.get(oid)
            # is the object an entry inside a table?
            ent = self.load(st, oid, path[:-1]) if len(path) > 1 else root
            if ent is not None and ent[0] == "struct" and ent[1] == r.entry:
                tid = ent[2].get("#tid")
                old = ent[2].get(r.E_SIZE)
                if isinstance(tid, tuple) and tid and tid[0] in ("stale", "freed"):
                    self._havoc_table(st, tid[1])
                elif tid is not None and is_int(old) and is_int(val):
                    self._table_delta(st, tid, val[1] - old[1], 0)
                elif tid is not None:
                    self._havoc_table(st, tid)
                # remember that this entry's recorded size was rewritten
                f2 = dict(ent[2])
                f2["#dirty"] = True
                if len(path) > 1:
                    self._store_at(st, oid, path[:-1], ("struct", ent[1], f2))
                else:
                    st.store[oid] = ("struct", ent[1], f2)
        if path and oid[0] == "E":
            tgt0 = st.store.get(oid)
            if tgt0 is not None and tgt0[0] == "struct" and tgt0[1] == r.entry:
                t0 = tgt0[2].get("#tid")
                if isinstance(t0, tuple) and t0 and t0[0] in ("stale", "freed"):
                    # a store through a handle to an entry that may already have been removed from / moved out of its table
                    self.gadd(st, "stale_write", "%s.%s" % (oid[0], path[-1]))
        if path and path[-1] in r.links and oid[0] != "L":
            self.clear_link_memos(st)
            par = self.load(st, oid, path[:-1]) if len(path) > 1 else st.store.get(oid)
            if par is not None and par[0] == "struct" and par[1] == r.entry:
                self.on_link_store(st, oid, path, val)
                return  # link stores into heap entries / the seal: the list shape is abstracted by the traversal model
        self._store_at(st, oid, path, val)

    # ------------------------------------------------------------------ tables
    def find_tables(self, st):
        """yield (oid, path, struct) for every RawTable value in the store"""
        out = []

        def rec(oid, v, path, depth):
            if depth > 6 or not isinstance(v, tuple):
                return
            if v[0] == "struct":
                if v[1] == RAWTABLE:
                    out.append((oid, path, v))
                    return
                for k, x in v[2].items():
                    rec(oid, x, path + (k,), depth + 1)
            elif v[0] == "enum":
                for vn, pay in v[3].items():
                    for k, x in pay.items():
                        rec(oid, x, path + ("@" + vn, k), depth + 1)
        for oid, v in list(st.store.items()):
            rec(oid, v, (), 0)
        return out

    def table_by_tid(self, st, tid):
        for oid, path, v in self.find_tables(st):
            if v[2].get("#tid") == tid:
                return oid, path, v
        return None

    def _table_delta(self, st, tid, dG, dN):
        t = self.table_by_tid(st, tid)
        if t is None:
            return
        oid, path, v = t
        f = dict(v[2])
        if is_int(f.get("G")):
            f["G"] = vint(f["G"][1] + dG)
        if is_int(f.get("N")):
            f["N"] = vint(f["N"][1] + dN)
        self._store_at(st, oid, path, ("struct", RAWTABLE, f))

    def _havoc_table(self, st, tid):
        t = self.table_by_tid(st, tid)
        if t is None:
            return
        oid, path, v = t
        f = dict(v[2])
        f["G"] = self.fresh_int(st, "Ghavoc")
        self._store_at(st, oid, path, ("struct", RAWTABLE, f))
        st.notes.append("ghost sum of a table was havocked (store to a size field through an untracked pointer)")

    def new_table(self, st, N=0, G=0):
        tid = ("tid", next(self.ctr))
        return mkstruct(RAWTABLE, {"N": vint(N), "G": vint(G), "#tid": tid})

    # ------------------------------------------------------------------ entries / cursors
    def new_entry_obj(self, st, tid, size=None, cur=None, tag="s"):
        """materialise an entry living inside table tid; returns oid"""
        oid = self.new_oid("E")
        if size is None:
            size = self.fresh_int(st, tag)
        k, v = ("opq", next(self.ctr)), ("opq", next(self.ctr))
        st.store[oid] = mkstruct(self.r.entry, {self.r.E_SIZE: size, self.r.E_KEY: k, self.r.E_VAL: v, "#tid": tid, "#cur": cur})
        self.assume_entry_inv(st, size, k, v)
        return oid

    def entry_ty_str(self):
        a = self.f.adts[self.r.entry]
        return "%s<%s>" % (self.r.entry, ", ".join(g["name"] for g in a["generics"] if g["kind"] == "type"))

    def entry_inv(self, st, size, k, v):
        """the constraint  size = heap(key) + heap(value) + size_of::<Entry<K,V>>()  (C02.c) for an entry value"""
        from .absmodels import heap_of
        if not (is_int(size) and k[0] == "opq" and v[0] == "opq"):
            return None
        sz = "sz[%s]" % self.entry_ty_str()
        st.num.add(ge(Lin.sym(sz), 0))
        return eq(size[1], heap_of(self, st, k[1]) + heap_of(self, st, v[1]) + Lin.sym(sz))

    def assume_entry_inv(self, st, size, k, v):
        c = self.entry_inv(st, size, k, v)
        if c is not None:
            st.num.add(c)
            st.num.add(le(size[1], Lin.sym("UM")))
            # the entry embeds its key and value: size_of::<K>, size_of::<V> <= size_of::<Entry<K,V>>
            a = self.f.adts[self.r.entry]
            szE = Lin.sym("sz[%s]" % self.entry_ty_str())
            for g in a["generics"]:
                if g["kind"] == "type":
                    sg = "sz[%s]" % g["name"]
                    st.num.add(ge(Lin.sym(sg), 0))
                    st.num.add(le(Lin.sym(sg), szE))

    def eptr(self, raw):
        return mkstruct(self.r.eptr, {self.r.EPTR_RAW: raw})

    def _read_link(self, st, oid, ent, field, done=()):
        """value of a link field (an EntryPtr) under the traversal model.  Reading the same link of the same object again, with no
        link store to heap memory in between, yields the same handle: the cursor object is remembered in the object (ghost
        `#lm:<field>`, dropped by every heap link store) so that what a comparison learns about the first read (a match guard
        `p if p == seal` reads through a reference, the arm then reads the place again) holds for the second."""
        memo = ent[2].get("#lm:" + field)
        cv0 = st.store.get(memo) if memo is not None else None
        val = self._read_link0(st, oid, ent, field)
        raw = val[2].get(self.r.EPTR_RAW) if (val[0] == "struct" and val[1] == self.r.eptr) else None
        if raw is None or raw[0] != "ptr" or raw[2] != ():
            return val
        cnew = st.store.get(raw[1])
        if cnew is None or cnew[0] != "cursor":
            return val
        if cv0 is not None and cv0[0] == "cursor" and all(cv0[1].get(k_) == cnew[1].get(k_) for k_ in ("R", "Rn", "dir", "seal", "tid", "first")):
            del st.store[raw[1]]
            return self.eptr(("ptr", memo, ()))
        if done == () and st.store.get(oid) is ent:
            f2 = dict(ent[2])
            f2["#lm:" + field] = raw[1]
            st.store[oid] = ("struct", ent[1], f2)
        return val

    def clear_link_memos(self, st):
        for o_, v_ in list(st.store.items()):
            if isinstance(v_, tuple) and v_ and v_[0] == "struct" and isinstance(v_[2], dict) and o_[0] != "L" \
                    and any(isinstance(k_, str) and k_.startswith("#lm:") for k_ in v_[2]):
                st.store[o_] = ("struct", v_[1], {k_: x_ for (k_, x_) in v_[2].items() if not (isinstance(k_, str) and k_.startswith("#lm:"))})

    def _read_link0(self, st, oid, ent, field):
        r = self.r
        seal_of = ent[2].get("#seal_of")
        if seal_of is not None:
            # start a traversal of cache `seal_of` in direction `field`
            cache = st.store.get(seal_of)
            tab = cache[2].get(r.TABLE) if cache and cache[0] == "struct" else None
            # the list enumerates the entries of the table its nodes live in -- normally the installed one, but not between a swap of
            # the tables and the rewrite of the seal's links (ghost #list_tid: the table the seal's links currently lead into)
            ltid = cache[2].get("#list_tid") if cache and cache[0] == "struct" else None
            if ltid is not None and tab is not None and tab[0] == "struct" and tab[2].get("#tid") != ltid:
                other = self.table_by_tid(st, ltid)
                if other is not None:
                    tab = other[2]
            if tab is not None and tab[0] == "struct" and tab[1] == RAWTABLE and is_int(tab[2].get("G")):
                c = self.new_oid("C")
                st.store[c] = ("cursor", {"R": tab[2]["G"][1], "Rn": tab[2]["N"][1], "dir": field, "seal": oid,
                                          "tid": tab[2].get("#tid"), "res": None, "first": True})
                return self.eptr(("ptr", c, ()))
            return self.eptr(("punk", next(self.ctr)))
        cur = ent[2].get("#cur")
        if cur is not None and cur["dir"] == field and is_int(ent[2].get(r.E_SIZE)):
            c = self.new_oid("C")
            st.store[c] = ("cursor", {"R": cur["R"] - ent[2][r.E_SIZE][1], "Rn": cur["Rn"] - 1, "dir": field,
                                      "seal": cur["seal"], "tid": cur["tid"], "res": None, "first": False})
            return self.eptr(("ptr", c, ()))
        return self.eptr(("punk", next(self.ctr)))

    def resolve_ptr(self, st, p, for_write=False):
        """target object location of a pointer value; cursors are followed when resolved"""
        if p[0] == "ptr":
            oid, path = p[1], p[2]
            v = st.store.get(oid)
            if v is not None and v[0] == "cursor":
                res = v[1]["res"]
                if res == "seal":
                    return (v[1]["seal"], ())
                if res is not None:
                    return (res, ())
                # dereferencing an unresolved cursor: it is the seal or some entry, unknown which
                u = self.new_oid("U")
                st.store[u] = ("unk", next(self.ctr), "entry?")
                return (u, ())
            return (oid, path)
        u = self.new_oid("U")
        st.store[u] = ("unk", next(self.ctr), "*?")
        return (u, ())

    # ------------------------------------------------------------------ list ghosts (promotion / pending links)
    def splice_role(self, body):
        """is this body the list primitive that links a node between two neighbours (4 link stores through pointers)?"""
        k = self._splice_cache.get(body.path)
        if k is None:
            eff = self.ctx.eff.direct.get(body.path, {})
            n = sum(1 for (f, _b, _s, via) in eff.get("w_entry", []) if via and f in self.r.links)
            from .cfg import cfg_of
            k = (n == 4 and not body.is_closure and not cfg_of(body).loops() and not eff.get("table") and not eff.get("swap_table")
                 and not eff.get("w_cache"))
            self._splice_cache[body.path] = k
        return k

    def unlink_role(self, body):
        """the list primitive that unlinks a node *in place*: takes the node's handle by value, reads both of the node's links and
        performs (itself or through helpers) exactly two link stores through pointers; no loop, no table effect.  A helper that only
        stores two links it is handed (and reads none) is not the primitive: it does not say which node leaves the list."""
        k = self._unlink_cache.get(body.path)
        if k is None:
            from .cfg import cfg_of
            ins = body.j.get("inputs") or []
            k = False
            if not body.is_closure and bool(ins) and self.r.is_eptr_ty(ins[0]) and not cfg_of(body).loops():
                tr = self.ctx.eff.trans(body, include_drops=False)
                n = sum(1 for (_p, (f, _b, _s, via)) in tr.get("w_entry", []) if via and f in self.r.links)
                if n == 2 and not tr.get("table") and not tr.get("swap_table") and not tr.get("w_cache"):
                    read = set()
                    for bl in body.blocks:
                        for st_ in bl["stmts"]:
                            if st_["k"] != "assign":
                                continue
                            rv = st_["rv"]
                            pls = []
                            if rv["k"] == "use" and rv["op"].get("k") in ("copy", "move"):
                                pls.append(rv["op"]["place"])
                            elif rv["k"] in ("ref", "rawptr", "copyforderef"):
                                pls.append(rv["place"])
                            for pl in pls:
                                for e in pl.get("p", []):
                                    if e["k"] == "field" and e.get("n") in self.r.links and e.get("of") == self.r.entry:
                                        read.add(e["n"])
                    k = len(read) >= 2
            self._unlink_cache[body.path] = k
        return k

    def gset(self, st, name):
        return st.store.get(("G", name), frozenset())

    def gadd(self, st, name, x):
        st.store[("G", name)] = self.gset(st, name) | frozenset([x])

    def gdel(self, st, name, x):
        st.store[("G", name)] = self.gset(st, name) - frozenset([x])

    def pre_call(self, body, args, st, chain):
        if self.unlink_role(body) and args and args[0][0] == "struct":
            raw = args[0][2].get(self.r.EPTR_RAW)
            if raw is not None and raw[0] == "ptr":
                try:
                    tgt = self.resolve_ptr(st, raw)[0]
                    ev = st.store.get(tgt)
                    if ev is not None and ev[0] == "struct" and ev[1] == self.r.entry and ev[2].get("#tid") in self.cache_tids(st) \
                            and ev[2].get("#tid") is not None:
                        self.gadd(st, "unhinged", tgt)     # still in the cache's table, no longer in its list
                except Unsupported:
                    pass
        if self.splice_role(body) and args and args[0][0] in ("ptr", "struct"):
            try:
                # the node is the first argument: `&mut self` (a pointer to the handle) or the handle by value
                ep = self.load(st, *self.resolve_ptr(st, args[0])) if args[0][0] == "ptr" else args[0]
                raw = ep[2].get(self.r.EPTR_RAW) if ep[0] == "struct" else None
                if raw is not None and raw[0] == "ptr":
                    tgt = self.resolve_ptr(st, raw)[0]
                    # splicing in a node that is still part of the list (neither unlinked in place before, nor freshly inserted into
                    # the table) leaves its old neighbours pointing at it: the chain gets a cycle / skips entries
                    tv_ = st.store.get(tgt)
                    if tgt[0] == "E" and tv_ is not None and tv_[0] == "struct" and tv_[1] == self.r.entry \
                            and tv_[2].get("#tid") in self.cache_tids(st) and tgt not in self.gset(st, "unhinged") \
                            and tgt not in self.gset(st, "unlinked") and "*" not in self.gset(st, "unhinged"):
                        self.gadd(st, "relinked", "an entry that is still linked is spliced in again by %s" % body.path.split("::")[-1])
                    # linked next to the seal on the MRU side?  (prev = seal, next = seal's MRU link) -- recorded as promotion
                    self.gadd(st, "promoted", tgt)
                    self.gadd(st, "promoted_any", "yes")
                    self.gadd(st, "maypromoted", "yes")
                    self.gdel(st, "unlinked", tgt)
                    self.gdel(st, "unhinged", tgt)
                    self.gdel(st, "pending", tgt)
                    self.events.append(("promote", {"target": tgt, "chain": chain, "state": None}))
                else:
                    self.gadd(st, "maypromoted", "yes")
            except Unsupported:
                pass

    def lru_end_distinct(self, st, ent, c):
        """`ent` is the entry at the LRU end of the list of table c["tid"] (first step of an LRU-direction traversal).  If exactly one
        live entry m of that table is known to sit at the MRU end (the one entry this operation promoted), then ent = m iff the list
        has a single entry, i.e. (premise P-list) iff  N = 1 and G = size(m).  When the numeric state excludes that, ent and m are
        different entries: record it (a removal of ent then leaves handles to m valid) together with  N >= 2, size + size(m) <= G."""
        r = self.r
        ms = []
        for m in self.gset(st, "promoted"):
            mv = st.store.get(m) if isinstance(m, tuple) else None
            if mv is not None and mv[0] == "struct" and mv[1] == r.entry and mv[2].get("#tid") == c["tid"] and is_int(mv[2].get(r.E_SIZE)):
                ms.append(m)
            else:
                return          # something else was promoted as well (or the promoted entry is no longer tracked): no claim
        if len(ms) != 1:
            return
        m = ms[0]
        msize = st.store[m][2][r.E_SIZE][1]
        probe = st.num.copy()
        probe.add(eq(c["Rn"], 1))
        probe.add(eq(c["R"], msize))
        if probe.feasible():
            return
        ev = st.store[ent]
        f = dict(ev[2])
        f["#distinct"] = frozenset([m])
        st.store[ent] = ("struct", ev[1], f)
        st.num.add(ge(c["Rn"], 2))
        st.num.add(le(f[r.E_SIZE][1] + msize, c["R"]))

    def cache_tids(self, st):
        """tids of the tables currently installed in cache objects"""
        out = set()
        for oid, v in st.store.items():
            if isinstance(v, tuple) and v and v[0] == "struct" and v[1] == self.r.cache:
                t = v[2].get(self.r.TABLE)
                if t is not None and t[0] == "struct":
                    out.add(t[2].get("#tid"))
        return out

    def on_link_store(self, st, oid, path, val):
        """a store to a link field of heap memory (seal or an entry).  Ghost L2L: the link of a node that belongs to a cache
        (its seal, or an entry of its installed table) now points to an entry of a table that no cache owns yet."""
        tgt_obj = st.store.get(oid) if len(path) == 1 else self.load(st, oid, path[:-1])
        if tgt_obj is None or tgt_obj[0] != "struct":
            return
        rawv = val[2].get(self.r.EPTR_RAW) if (val[0] == "struct" and val[1] == self.r.eptr) else None
        if rawv is not None and rawv[0] == "ptr":
            try:
                self.gdel(st, "unlinked", self.resolve_ptr(st, rawv)[0])
            except Unsupported:
                pass
        # ghost #list_tid of the cache whose seal is written: the table the list now leads into
        so = tgt_obj[2].get("#seal_of")
        if so is not None and rawv is not None and rawv[0] == "ptr":
            cv = st.store.get(so)
            if cv is not None and cv[0] == "struct" and "#list_tid" in cv[2]:
                try:
                    tgt_oid = self.resolve_ptr(st, rawv)[0]
                    pv = st.store.get(tgt_oid)
                    f2 = dict(cv[2])
                    if tgt_oid == oid:
                        f2["#list_tid"] = None                      # the seal points at itself: empty list (installed table)
                    elif pv is not None and pv[0] == "struct" and pv[1] == self.r.entry and pv[2].get("#tid") is not None \
                            and not (isinstance(pv[2]["#tid"], tuple) and pv[2]["#tid"] and pv[2]["#tid"][0] in ("stale", "freed")):
                        f2["#list_tid"] = pv[2]["#tid"]
                    st.store[so] = ("struct", cv[1], f2)
                except Unsupported:
                    pass
        installed = self.cache_tids(st)
        owner_is_cache = tgt_obj[2].get("#seal_of") is not None or (tgt_obj[2].get("#tid") in installed and tgt_obj[2].get("#tid") is not None)
        if not owner_is_cache:
            return
        raw = val[2].get(self.r.EPTR_RAW) if (val[0] == "struct" and val[1] == self.r.eptr) else None
        if raw is None or raw[0] != "ptr":
            return
        try:
            pointee = st.store.get(self.resolve_ptr(st, raw)[0])
        except Unsupported:
            return
        if pointee is not None and pointee[0] == "struct" and pointee[1] == self.r.entry:
            ptid = pointee[2].get("#tid")
            if ptid is not None and not (isinstance(ptid, tuple) and ptid and ptid[0] == "stale") and ptid not in installed:
                self.gadd(st, "l2l", ptid)

    # ------------------------------------------------------------------ obligations
    def oblige(self, key, st, cons, desc, loc=None, chain=None):
        """record whether the state entails every constraint in cons (last evaluation of a key wins... but an
        obligation evaluated in several contexts must hold in all of them: keys include the context)"""
        ok = True
        failed = []
        if st.num.feasible():
            for c in cons:
                self.stats["entail"] += 1
                if not st.num.entails(c):
                    ok = False
                    failed.append(cstr(c))
        self.obligs[key] = {"ok": ok, "desc": desc, "failed": failed, "loc": loc, "chain": chain,
                            "vacuous": not st.num.feasible()}
        return ok

    # ------------------------------------------------------------------ interpretation of a body
    def call_body(self, body, args, st, chain):
        """returns list of (retval, state)"""
        if len(chain) > self.max_depth:
            raise Unsupported("call depth > %d at %s" % (self.max_depth, body.path))
        if body.path in [c for c in chain]:
            raise Unsupported("recursion through %s" % body.path)
        self.stats["calls_inlined"] += 1
        self.pre_call(body, args, st, chain)
        fid = next(self.fid)
        for i, a in enumerate(args):
            st.store[("L", fid, i + 1)] = a
        fr = Frame(self, body, fid, chain + (body.path,))
        outs = fr.run(st)
        res = []
        for (rv, s) in outs:
            # drop the frame's locals; a table that dies with the frame frees its allocation
            for k in [k for k in s.store if k[0] == "L" and k[1] == fid]:
                self.table_dies(s, s.store[k])
                del s.store[k]
            res.append((rv, s))
        return res

    def table_dies(self, st, v, depth=0):
        """a RawTable value goes out of scope: entries materialised from its storage now point into freed memory"""
        if depth > 3 or not isinstance(v, tuple) or not v:
            return
        if v[0] == "struct":
            if v[1] == RAWTABLE:
                tid = v[2].get("#tid")
                if tid is None:
                    return
                for oid, ev in list(st.store.items()):
                    if oid[0] == "E" and isinstance(ev, tuple) and ev[0] == "struct" and ev[1] == self.r.entry:
                        t = ev[2].get("#tid")
                        base = t[1] if (isinstance(t, tuple) and t and t[0] in ("stale", "freed")) else t
                        if base == tid:
                            f = dict(ev[2])
                            f["#tid"] = ("freed", tid)
                            st.store[oid] = ("struct", ev[1], f)
                return
            for x in v[2].values():
                self.table_dies(st, x, depth + 1)


class Frame:
    def __init__(self, ip, body, fid, chain):
        self.ip = ip
        self.body = body
        self.fid = fid
        self.chain = chain
        self.g = cfg_of(body)
        self.calls = {c.bb: c for c in ip.cg.calls.get(body.path, [])}
        # reverse post-order over normal edges
        self.rpo = self._rpo()
        self.rpo_idx = {b: i for i, b in enumerate(self.rpo)}
        self.loop_heads = set(h for (_t, h) in self.g.back_edges())
        self.loops = self.g.loops()
        self.live_after = None

    def _rpo(self):
        seen = set()
        order = []

        def dfs(b):
            seen.add(b)
            for s in self.g.nsucc[b]:
                if s not in seen:
                    dfs(s)
            order.append(b)
        import sys
        sys.setrecursionlimit(10000)
        dfs(0)
        return list(reversed(order))

    def L(self, l):
        return ("L", self.fid, l)

    # ---- places
    def place_loc(self, st, pl):
        ip = self.ip
        oid = self.L(pl["l"])
        path = ()
        for e in pl["p"]:
            k = e["k"]
            if k == "deref":
                v = ip.load(st, oid, path)
                oid, path = self.deref_target(st, v)
            elif k == "field":
                name = e.get("n") if e.get("n") is not None else str(e["i"])
                path = path + (name,)
            elif k == "downcast":
                path = path + ("@" + (e.get("n") or str(e["v"])),)
            else:
                # indexing etc.: unknown sub-object
                u = ip.new_oid("U")
                st.store[u] = ("unk", next(ip.ctr), "idx")
                oid, path = u, ()
        return oid, path

    def deref_target(self, st, v):
        ip = self.ip
        if v[0] == "ptr":
            return ip.resolve_ptr(st, v)
        if v[0] == "struct" and v[1] == "std::boxed::Box":
            pass
        u = ip.new_oid("U")
        st.store[u] = ("unk", next(ip.ctr), "*?")
        return (u, ())

    def read_place(self, st, pl):
        oid, path = self.place_loc(st, pl)
        v = self.ip.load(st, oid, path)
        if v[0] == "unk" and v[2] == "?":
            # give scalars a proper abstract value based on the static type
            ty = pl["ty"]
            if ty in UNSIGNED or ty in SIGNED or ty == "bool":
                v = self.ip.fresh_of_ty(st, ty)
                self.ip._store_at(st, oid, path, v)
        return v

    def write_place(self, st, pl, val):
        # a store through a handle that was read off a link *before* a removal from that table (and never compared since) may hit
        # the vacated bucket
        if any(e["k"] == "deref" for e in pl["p"]):
            try:
                cur_oid, cur_path = self.L(pl["l"]), ()
                for e in pl["p"]:
                    if e["k"] == "deref":
                        v = self.ip.load(st, cur_oid, cur_path)
                        if v[0] == "ptr":
                            cv = st.store.get(v[1])
                            if cv is not None and cv[0] == "cursor" and cv[1].get("res") is None and cv[1].get("stale"):
                                last = pl["p"][-1]
                                self.ip.gadd(st, "stale_write", "through a handle read before a removal: .%s" % (last.get("n") or last.get("k")))
                            break
                        break
                    elif e["k"] == "field":
                        cur_path = cur_path + ((e.get("n") if e.get("n") is not None else str(e["i"])),)
                    else:
                        break
            except Exception:
                pass
        oid, path = self.place_loc(st, pl)
        self.ip.write(st, oid, path, val)

    def operand(self, st, op):
        if op["k"] in ("copy", "move"):
            return self.read_place(st, op["place"])
        c = op["c"]
        if "fn" in c:
            return ("fn", c["fn"])
        if "int" in c:
            ty = c["ty"]
            if ty == "bool":
                return ("bool", bool(c["int"]))
            if ty == "usize" and int(c["int"]) in (2 ** 64 - 1, 2 ** 32 - 1):
                # usize::MAX stays symbolic (the same symbol bounds every usize quantity): width-independent reasoning
                st.num.add(ge(Lin.sym("UM"), 65535))
                return vint(Lin.sym("UM"))
            return vint(c["int"])
        if c.get("ty") == "()":
            return ("unit",)
        return ("unk", next(self.ip.ctr), c.get("ty", "?"))

    # ---- rvalues
    def rvalue(self, st, rv, dest_ty=None):
        ip = self.ip
        k = rv["k"]
        if k == "use":
            return self.operand(st, rv["op"])
        if k in ("ref", "rawptr"):
            oid, path = self.place_loc(st, rv["place"])
            return ("ptr", oid, path)
        if k == "copyforderef":
            return self.read_place(st, rv["place"])
        if k == "cast":
            v = self.operand(st, rv["op"])
            kind = rv["kind"]
            if v[0] in ("ptr", "null", "punk"):
                return v
            if is_int(v) and ("IntToInt" in kind):
                return v
            if "Transmute" in kind or "PtrToPtr" in kind or "PointerCoercion" in kind:
                return v
            return ip.fresh_of_ty(st, rv["ty"], "cast")
        if k == "binop":
            a = self.operand(st, rv["a"])
            b = self.operand(st, rv["b"])
            return self.binop(st, rv["op"], a, b, rv)
        if k == "unop":
            a = self.operand(st, rv["a"])
            if rv["op"] == "Not":
                if a[0] == "bool":
                    return ("bool", not a[1])
                return ("bnot", a)
            return ip.fresh_of_ty(st, dest_ty or "?", "un")
        if k == "discr":
            oid, path = self.place_loc(st, rv["place"])
            v = ip.load(st, oid, path)
            if v[0] == "enum" and v[2] is not None and v[1] in ip.variant_names:
                return vint(ip.variant_names[v[1]].index(v[2]))
            return ("discr", oid, path, rv["place"]["ty"])
        if k == "aggregate":
            ops = [self.operand(st, o) for o in rv["ops"]]
            a = rv["agg"]
            if a == "adt":
                adt = ip.f.adts.get(rv["name"])
                names = rv["fields"]
                fields = {(names[i] if i < len(names) else str(i)): ops[i] for i in range(len(ops))}
                is_enum = (adt and adt["kind"] == "enum") or rv["name"] in ENUM_VARIANTS
                if is_enum:
                    return ("enum", rv["name"], rv["vname"], {rv["vname"]: fields})
                return mkstruct(rv["name"], fields)
            if a == "tuple":
                if not ops:
                    return ("unit",)
                return mkstruct(None, {str(i): ops[i] for i in range(len(ops))})
            if a == "closure":
                return ("clos", rv["def"], tuple(ops))
            return ("unk", next(ip.ctr), "agg")
        return ip.fresh_of_ty(st, dest_ty or "?", "rv")

    def binop(self, st, op, a, b, rv=None):
        ip = self.ip
        base = op.replace("WithOverflow", "").replace("Unchecked", "")
        if base in ("Add", "Sub", "Mul") and is_int(a) and is_int(b):
            la, lb = a[1], b[1]
            if base == "Add":
                r = vint(la + lb)
            elif base == "Sub":
                r = vint(la - lb)
            else:
                if la.is_const():
                    r = vint(lb.scale(la.c))
                elif lb.is_const():
                    r = vint(la.scale(lb.c))
                else:
                    r = ip.fresh_int(st, "mul")
            if "WithOverflow" in op:
                return ("ovf", r, base, la, lb)
            if base == "Sub" and "Unchecked" not in op:
                # plain Sub (overflow checks off): wrap-around is silent; obligation raised by the caller
                self._sub_obligation(st, la, lb, rv)
            if base == "Add" and "Unchecked" not in op and "WithOverflow" not in op:
                dest = self._dest_label(self._cur_dest) if getattr(self, "_cur_dest", None) else "tmp"
                key = ("add", self.chain, dest, str(rv.get("span") if isinstance(rv, dict) else rv) + str(la) + str(lb))
                ip.oblige(key, st, [le(la + lb, Lin.sym("UM"))], "addition %s + %s cannot exceed usize::MAX" % (la, lb), loc=None, chain=self.chain)
                st.num.add(le(la + lb, Lin.sym("UM")))
            return r
        if base in ("Eq", "Ne", "Lt", "Le", "Gt", "Ge"):
            if is_int(a) and is_int(b):
                return ("cmp", base, a[1], b[1])
            if a[0] in ("ptr", "null", "punk") or b[0] in ("ptr", "null", "punk"):
                return ("peq", a, b, base == "Ne")
            if a[0] == "bool" and b[0] == "bool":
                return ("bool", (a[1] == b[1]) if base == "Eq" else (a[1] != b[1]))
            return ("bunk", next(ip.ctr))
        if base in ("BitAnd", "BitOr") and a[0] == "bool" and b[0] == "bool":
            return ("bool", (a[1] and b[1]) if base == "BitAnd" else (a[1] or b[1]))
        return ip.fresh_of_ty(st, "usize" if is_int(a) else "?", "bin")

    def _sub_obligation(self, st, la, lb, where):
        ip = self.ip
        key = ("sub", self.chain, str(where.get("span") if isinstance(where, dict) else where))
        ip.oblige(key, st, [ge(la, lb)], "subtraction %s - %s cannot wrap" % (la, lb), loc=None, chain=self.chain)

    # ---- the worklist
    def run(self, st0):
        ip = self.ip
        ins = {0: [st0]}
        work = [0]
        rets = []
        visits = {}
        while work:
            work.sort(key=lambda b: self.rpo_idx.get(b, 1 << 30))
            bb = work.pop(0)
            visits[bb] = visits.get(bb, 0) + 1
            if visits[bb] > 16:
                raise Unsupported("no fixpoint in %s bb%d" % (self.body.path, bb))
            states = ins.get(bb, [])
            out_edges = []
            for s in states:
                if not s.num.feasible():
                    continue
                ip.stats["blocks"] += 1
                if ip.stats["blocks"] > ip.block_budget:
                    raise Unsupported("block budget exhausted (%d) in %s" % (ip.block_budget, self.body.path))
                if ip.stats["blocks"] % 64 == 0 and time.time() - ip.t_start > ip.time_budget:
                    raise Unsupported("time budget exhausted (%d s) in %s" % (ip.time_budget, self.body.path))
                for (succ, s2, rv) in self.transfer(bb, s.fork()):
                    if succ is None:
                        rets.append((rv, s2))
                    else:
                        out_edges.append((succ, s2))
            changed = set()
            for (succ, s2) in out_edges:
                if self.merge_into(ins, succ, s2):
                    changed.add(succ)
                    if succ in self.loop_heads and self.rpo_idx.get(succ, 0) <= self.rpo_idx.get(bb, 0):
                        # the head state grew along a back edge: states inside the loop are functions of the head state
                        # and are recomputed from it (sound: the new head state includes the old one)
                        for b2 in self.loops.get(succ, ()):
                            if b2 != succ:
                                ins.pop(b2, None)
                                if b2 in work:
                                    work.remove(b2)
            for c in changed:
                if c not in work:
                    work.append(c)
            # return states are recomputed whenever a return block is re-run: keep only the latest per block
        # returns: collect from the final in-states of return blocks (re-run them once on final states)
        final = []
        for bb in self.g.return_blocks():
            for s in ins.get(bb, []):
                if not s.num.feasible():
                    continue
                for (succ, s2, rv) in self.transfer(bb, s.fork()):
                    if succ is None:
                        final.append((rv, s2))
        return self.partition_returns(final)

    def partition_returns(self, finals):
        """join return states with the same enum signature of the return value"""
        groups = []
        for (rv, s) in finals:
            sig = self.ip.absmodels.enum_sig(rv)
            for g in groups:
                if g[0] == sig:
                    g[1].append((rv, s))
                    break
            else:
                groups.append((sig, [(rv, s)]))
        out = []
        for sig, lst in groups:
            if len(lst) == 1:
                out.append(lst[0])
            else:
                # join the states; the return value is stored in a scratch slot so that it is joined too
                slot = ("R", self.fid, 0)
                sts = []
                for (rv, s) in lst:
                    s.store[slot] = rv
                    sts.append(s)
                j = sts[0]
                for s in sts[1:]:
                    j = Joiner(self.ip, self).join(j, s)
                rv = j.store.pop(slot)
                out.append((rv, j))
        return out

    def merge_into(self, ins, bb, s):
        """add state s to the in-states of bb; returns True if the in-states changed"""
        lst = ins.setdefault(bb, [])
        sig = self.state_sig(s)
        for i, old in enumerate(lst):
            if self.state_sig(old) == sig:
                if Joiner(self.ip, self).leq(s, old):
                    return False
                j = Joiner(self.ip, self).join(old, s)
                lst[i] = j
                return True
        lst.append(s)
        if len(lst) > 24:
            raise Unsupported("more than 24 partitions at %s bb%d" % (self.body.path, bb))
        return True

    def state_sig(self, s):
        """partition key: variants of enum values held by this frame's locals and the drop-flag booleans"""
        sig = []
        for k, v in s.store.items():
            if k[0] == "L" and k[1] == self.fid:
                if v[0] == "enum" and v[2] is not None:
                    sig.append((k[2], self.ip.absmodels.enum_sig(v)))
                elif v[0] == "bool":
                    sig.append((k[2], v[1]))
                elif v[0] == "struct" and v[1] == self.ip.r.eptr:
                    raw = v[2].get(self.ip.r.EPTR_RAW)
                    if raw is not None and raw[0] == "null":
                        sig.append((k[2], "null"))
        return tuple(sorted(sig, key=str))

    # ---- transfer of one block; yields (succ or None, state, retval)
    def transfer(self, bb, st):
        ip = self.ip
        bl = self.body.blocks[bb]
        for s in bl["stmts"]:
            k = s["k"]
            if k == "assign":
                self._cur_dest = s["place"]
                val = self.rvalue(st, s["rv"], s["place"]["ty"])
                self.write_place(st, s["place"], val)
            elif k == "dead":
                dv = st.store.pop(self.L(s["l"]), None)
                if dv is not None:
                    ip.table_dies(st, dv)
            elif k == "setdiscr":
                pass
        t = bl["term"]
        k = t["k"]
        if k == "goto":
            return [(t["target"], st, None)]
        if k == "return":
            rv = ip.load(st, self.L(0), ())
            return [(None, st, rv)]
        if k in ("unreachable", "resume", "terminate"):
            return []
        if k == "drop":
            return self.do_drop(bb, t, st)
        if k == "assert":
            return self.do_assert(bb, t, st)
        if k == "switch":
            return self.do_switch(bb, t, st)
        if k == "call":
            return self.do_call(bb, t, st)
        raise Unsupported("terminator %s" % k)

    def do_drop(self, bb, t, st):
        ip = self.ip
        # drop of a local ADT with a Drop impl: run it (normal paths only)
        ty = t["place"]["ty"]
        pl = t["place"]
        lt_ = self.body.local_ty(pl["l"]) if not pl["p"] else None
        if lt_ is not None and lt_.get("k") == "adt" and lt_.get("local") and lt_["name"] in ip.cg._drop_impls:
            db = ip.cg._drop_impls[lt_["name"]]
            oid, path = self.place_loc(st, pl)
            outs = ip.call_body(db, [("ptr", oid, path)], st, self.chain)
            return [(t["target"], s, None) for (_rv, s) in outs]
        return [(t["target"], st, None)]

    def _dest_label(self, place):
        """Stable, line-free name of the place an arithmetic result is stored into: last named field, else the variable name."""
        for e in reversed(place.get("p", [])):
            if e["k"] == "field":
                return str(e.get("n") or e.get("i"))
        return self.body.local_name(place["l"]) or "tmp"

    def _ovf_dest(self, t):
        """Where the result of the checked operation asserted by terminator `t` is stored (first statement of the target block)."""
        c = t["cond"]
        if c.get("k") not in ("copy", "move"):
            return "tmp"
        l = c["place"]["l"]
        for s in self.body.blocks[t["target"]]["stmts"]:
            if s["k"] == "assign" and s["rv"].get("k") == "use" and s["rv"]["op"].get("k") in ("copy", "move") \
                    and s["rv"]["op"]["place"]["l"] == l:
                return self._dest_label(s["place"])
        return "tmp"

    def do_assert(self, bb, t, st):
        ip = self.ip
        cond = self.operand(st, t["cond"])
        if cond[0] == "ovfflag":
            ovf = cond[1]
            kind, la, lb = ovf[2], ovf[3], ovf[4]
            if kind == "Sub":
                key = ("sub", self.chain, span_str(t["span"]))
                ip.oblige(key, st, [ge(la, lb)], "subtraction %s - %s cannot underflow (a wrap in release builds)" % (la, lb),
                          loc=span_str(t["span"]), chain=self.chain)
                st.num.add(ge(la, lb))
            elif kind == "Add":
                key = ("add", self.chain, self._ovf_dest(t), span_str(t["span"]))
                ip.oblige(key, st, [le(la + lb, Lin.sym("UM"))], "addition %s + %s cannot exceed usize::MAX (a panic in debug, a wrap in release "
                          "builds)" % (la, lb), loc=span_str(t["span"]), chain=self.chain)
                st.num.add(le(la + lb, Lin.sym("UM")))
            return [(t["target"], st, None)]
        if cond[0] == "bool":
            if cond[1] == t["expected"]:
                return [(t["target"], st, None)]
            return []
        return [(t["target"], st, None)]

    def do_switch(self, bb, t, st):
        ip = self.ip
        d = self.operand(st, t["discr"])
        targets = t["targets"]
        oth = t["otherwise"]
        out = []
        if is_int(d) and d[1].is_const():
            v = int(d[1].c)
            for (val, tb) in targets:
                if val == v:
                    return [(tb, st, None)]
            return [(oth, st, None)]
        if d[0] == "bool":
            v = 1 if d[1] else 0
            for (val, tb) in targets:
                if val == v:
                    return [(tb, st, None)]
            return [(oth, st, None)]
        if d[0] == "discr":
            _, oid, path, ename = d
            ev = ip.load(st, oid, path)
            names = None
            if ev[0] == "enum" and ev[1] in ip.variant_names:
                names = ip.variant_names[ev[1]]
            else:
                # infer the enum from the static type string
                for en, vs in ip.variant_names.items():
                    short = en.split("::")[-1]
                    if ename.startswith(en + "<") or ename == en or ename.startswith(short + "<") or ename.startswith(en):
                        names = vs
                        if ev[0] != "enum" or ev[1] is None:
                            ev = ("enum", en, None, ev[3] if ev[0] == "enum" else {})
                        break
            if names is None:
                return [(tb, st.fork(), None) for (_v, tb) in targets] + [(oth, st, None)]
            seen = set()
            for (val, tb) in targets:
                if val < len(names):
                    s2 = st.fork()
                    vn = names[val]
                    pay = dict(ev[3])
                    pay.setdefault(vn, {})
                    ip._store_at(s2, oid, path, ("enum", ev[1], vn, {vn: pay[vn]}))
                    out.append((tb, s2, None))
                    seen.add(val)
            rest = [i for i in range(len(names)) if i not in seen]
            if rest and not self._is_unreachable(oth):
                for i in rest:
                    s2 = st.fork()
                    vn = names[i]
                    pay = dict(ev[3])
                    ip._store_at(s2, oid, path, ("enum", ev[1], vn, {vn: pay.get(vn, {})}))
                    out.append((oth, s2, None))
            return out
        # boolean conditions
        tb_false = None
        for (val, tb) in targets:
            if val == 0:
                tb_false = tb
        tb_true = oth
        if tb_false is None:
            return [(tb, st.fork(), None) for (_v, tb) in targets] + [(oth, st, None)]
        for (truth, tb) in ((True, tb_true), (False, tb_false)):
            s2 = st.fork()
            if self.assume_bool(s2, d, truth):
                out.append((tb, s2, None))
        return out

    def _is_unreachable(self, bb):
        return self.body.blocks[bb]["term"]["k"] == "unreachable" and not self.body.blocks[bb]["stmts"]

    def assume_bool(self, st, d, truth):
        """refine st by d == truth; return False if the branch is infeasible"""
        ip = self.ip
        k = d[0]
        if k == "bool":
            return d[1] == truth
        if k == "bnot":
            return self.assume_bool(st, d[1], not truth)
        if k == "cmp":
            op, a, b = d[1], d[2], d[3]
            if not truth:
                op = {"Lt": "Ge", "Le": "Gt", "Gt": "Le", "Ge": "Lt", "Eq": "Ne", "Ne": "Eq"}[op]
            if op == "Lt":
                st.num.add(lt(a, b))
            elif op == "Le":
                st.num.add(le(a, b))
            elif op == "Gt":
                st.num.add(gt(a, b))
            elif op == "Ge":
                st.num.add(ge(a, b))
            elif op == "Eq":
                st.num.add(eq(a, b))
            else:
                # a != b: keep only if one side is excluded
                if st.num.entails(le(a, b)):
                    st.num.add(lt(a, b))
                elif st.num.entails(ge(a, b)):
                    st.num.add(gt(a, b))
            return st.num.feasible()
        if k == "peq":
            a, b, neg = d[1], d[2], d[3]
            want_eq = truth != neg
            return self.assume_ptr_eq(st, a, b, want_eq)
        if k == "isnull":
            return self.assume_ptr_eq(st, d[1], ("null",), truth)
        return True

    def assume_ptr_eq(self, st, a, b, want_eq):
        ip = self.ip
        # cursor vs seal
        for (x, y) in ((a, b), (b, a)):
            if x[0] == "ptr":
                cv = st.store.get(x[1])
                if cv is not None and cv[0] == "cursor" and cv[1]["res"] is None and y[0] == "ptr" and y[1] == cv[1]["seal"]:
                    c = dict(cv[1])
                    if want_eq:
                        c["res"] = "seal"
                        st.num.add(eq(c["R"], 0))
                        st.num.add(eq(c["Rn"], 0))
                        st.store[x[1]] = ("cursor", c)
                        return st.num.feasible()
                    # not at the seal: it denotes an entry of the table, with size s <= R
                    size = ip.fresh_int(st, "s")
                    st.num.add(le(size[1], c["R"]))
                    st.num.add(ge(c["Rn"], 1))
                    ent = ip.new_entry_obj(st, c["tid"], size, cur={"dir": c["dir"], "R": c["R"], "Rn": c["Rn"], "seal": c["seal"], "tid": c["tid"],
                                                                     "first": bool(c.get("first"))})
                    if c.get("first") and c["dir"] == ip.r.L_LRU:
                        ip.lru_end_distinct(st, ent, c)
                    c["res"] = ent
                    st.store[x[1]] = ("cursor", c)
                    return st.num.feasible()
        ta = self._ptr_id(st, a)
        tb = self._ptr_id(st, b)
        if ta is not None and tb is not None:
            if ta == tb:
                return want_eq
            if ta[0] == "null" or tb[0] == "null":
                # null vs a real object
                return not want_eq
            # two different abstract objects: may still alias (summaries) unless one is the seal / a fresh local
            return True
        return True

    def _ptr_id(self, st, p):
        if p[0] == "null":
            return ("null",)
        if p[0] == "ptr":
            v = st.store.get(p[1])
            if v is not None and v[0] == "cursor":
                if v[1]["res"] == "seal":
                    return ("obj", v[1]["seal"], ())
                if v[1]["res"] is not None:
                    return ("obj", v[1]["res"], ())
                return None
            return ("obj", p[1], p[2])
        return None

    # ---- calls
    def do_call(self, bb, t, st):
        ip = self.ip
        c = self.calls.get(bb)
        args = [self.operand(st, a) for a in t["args"]]
        dest = t["dest"]
        target = t["target"]
        results = None
        if c is None or c.fn is None:
            # indirect call: unknown
            results = [(ip.fresh_of_ty(st, dest["ty"], "icall"), st)]
        elif c.target is not None:
            results = ip.call_body(c.target, args, st, self.chain)
        else:
            results = ip.absmodels.call_external(ip, self, c, t, args, st)
        out = []
        for (rv, s) in results:
            if target is None:
                continue
            self.write_place(s, dest, rv)
            out.append((target, s, None))
        return out


def affine_hull_equalities(coords):
    """coords: list of (name_lin, value_on_side_a: Lin, value_on_side_b: Lin).  Returns the equalities
    sum_k c_k * name_k = d that hold on both sides whatever the values of the sides' free symbols are
    (null space of the generators of the affine hull of the two parameterised affine spaces)."""
    from fractions import Fraction as Fr
    n = len(coords)
    if n == 0:
        return []
    gens = []
    syms_a = set()
    syms_b = set()
    for (_nm, la, lb) in coords:
        syms_a |= set(la.t)
        syms_b |= set(lb.t)
    for f in syms_a:
        gens.append([la.t.get(f, Fr(0)) for (_nm, la, lb) in coords])
    for f in syms_b:
        gens.append([lb.t.get(f, Fr(0)) for (_nm, la, lb) in coords])
    gens.append([lb.c - la.c for (_nm, la, lb) in coords])
    # null space of the matrix whose rows are the generators
    rows = [r for r in gens if any(x != 0 for x in r)]
    piv = []
    m = [list(r) for r in rows]
    r_i = 0
    for col in range(n):
        p = None
        for i in range(r_i, len(m)):
            if m[i][col] != 0:
                p = i
                break
        if p is None:
            continue
        m[r_i], m[p] = m[p], m[r_i]
        pv = m[r_i][col]
        m[r_i] = [x / pv for x in m[r_i]]
        for i in range(len(m)):
            if i != r_i and m[i][col] != 0:
                k = m[i][col]
                m[i] = [x - k * y for x, y in zip(m[i], m[r_i])]
        piv.append(col)
        r_i += 1
        if r_i == len(m):
            break
    free = [c for c in range(n) if c not in piv]
    out = []
    for fc in free:
        vec = [Fr(0)] * n
        vec[fc] = Fr(1)
        for i, pc in enumerate(piv):
            vec[pc] = -m[i][fc]
        # equality: sum vec_k * name_k - d = 0 with d from side a's constant part
        l = Lin()
        d = Fr(0)
        for k, (nm, la, lb) in enumerate(coords):
            if vec[k] != 0:
                l = l + nm.scale(vec[k])
                d += vec[k] * la.c
        l = l - d
        if not l.is_const():
            out.append(("eq", l))
    return out


class Joiner:
    """join of two abstract states (same program point)"""

    def __init__(self, ip, frame):
        self.ip = ip
        self.frame = frame

    @staticmethod
    def same(a, b):
        if a.store.keys() != b.store.keys():
            return False
        if a.store != b.store:
            return False
        ka = set((k, l.key()) for k, l in a.num.cons)
        kb = set((k, l.key()) for k, l in b.num.cons)
        return ka == kb

    # ---- inclusion test  new <= old  (modulo renaming of old's join symbols)
    def leq(self, new, old):
        self.map = {}
        for oid, vo in old.store.items():
            if oid[0] == "H":
                if oid in new.store and not self._leq_int(new.store[oid], vo):
                    return False
                continue
            if oid[0] == "G":
                nv = new.store.get(oid, frozenset())
                if oid[1] in ("promoted", "promoted_any"):
                    if not (vo <= nv):
                        return False
                else:
                    for x in nv:
                        if x in vo:
                            continue
                        if not (isinstance(x, str) or (isinstance(x, tuple) and x and x[0] == "tid")) and "*" in vo:
                            continue
                        return False
                continue
            if oid[0] not in ("L", "O", "R"):
                continue      # heap objects are compared through the pointers that reach them
            if oid not in new.store:
                continue
            if not self._leq_v(new.store[oid], vo, new, old, 0):
                return False
        # every constraint of old must hold in new under the mapping
        new_syms = None
        for (k, l) in old.num.cons:
            l2 = l
            for sname in list(l.t):
                if sname in self.map:
                    l2 = l2.subst(sname, self.map[sname])
            if not new.num.entails((k, l2)):
                # a join symbol of `old` that was not mapped and that `new` knows nothing about names a location that does not exist
                # in `new` (a local that is dead on the new path): the constraint says something about that location only, i.e.
                # nothing about the locations both states have (existential projection)
                if new_syms is None:
                    new_syms = set()
                    for (_k2, l3) in new.num.cons:
                        new_syms |= set(l3.t)
                free = [sn for sn in l2.t if isinstance(sn, str) and sn.startswith("j") and sn not in self.map and sn not in new_syms]
                if free and (k == "eq" or len(free) >= 1 and k == "le" and len(l2.t) - len(free) <= 1):
                    continue
                return False
        return True

    def _leq_int(self, ln, lo):
        if ln == lo:
            return True
        if len(lo.t) == 1 and lo.c == 0:
            (sname, coef), = lo.t.items()
            if coef == 1 and isinstance(sname, str) and sname.startswith("j"):
                if sname in self.map:
                    return self.map[sname] == ln
                self.map[sname] = ln
                return True
        return False

    def _leq_v(self, x, y, new, old, depth):
        """x (new) is described by y (old)"""
        if x == y:
            return True
        if y is None or depth > 12:
            return True
        if x is None:
            return y[0] in ("unk",)
        kx, ky = x[0], y[0]
        if ky == "unk":
            return True
        if kx == "int" and ky == "int":
            return self._leq_int(x[1], y[1])
        if kx == "struct" and ky == "struct" and x[1] == y[1]:
            for k, vy in y[2].items():
                if k == "#req":
                    continue
                if k in ("#tid", "#seal_of", "#removed_from") or (isinstance(k, str) and k.startswith("#lm:")):
                    if vy is not None and x[2].get(k) != vy:
                        return False
                    continue
                if k == "#cur":
                    if vy is None:
                        continue
                    vx = x[2].get(k)
                    if vx is None or vx["dir"] != vy["dir"] or vx["seal"] != vy["seal"] or vx["tid"] != vy["tid"]:
                        return False
                    if not (self._leq_int(vx["R"], vy["R"]) and self._leq_int(vx["Rn"], vy["Rn"])):
                        return False
                    continue
                if k not in x[2]:
                    return False
                if not self._leq_v(x[2][k], vy, new, old, depth + 1):
                    return False
            return True
        if kx == "enum" and ky == "enum" and x[1] == y[1]:
            if y[2] is not None and x[2] != y[2]:
                return False
            for vn, pay in y[3].items():
                if vn not in x[3]:
                    if x[2] is not None and vn != x[2]:
                        continue
                    return False
                for k, vy in pay.items():
                    if k not in x[3][vn] or not self._leq_v(x[3][vn][k], vy, new, old, depth + 1):
                        return False
            return True
        if kx == "cursor" and ky == "cursor":
            cx, cy = x[1], y[1]
            if cx["dir"] != cy["dir"] or cx["seal"] != cy["seal"] or cx["tid"] != cy["tid"]:
                return False
            if cy["res"] is not None:
                if cy["res"] == "seal" or cx["res"] == "seal" or cx["res"] is None:
                    if cx["res"] != cy["res"]:
                        return False
                elif cx["res"] != cy["res"]:
                    if not self._leq_v(new.store.get(cx["res"]), old.store.get(cy["res"]), new, old, depth + 1):
                        return False
            return self._leq_int(cx["R"], cy["R"]) and self._leq_int(cx["Rn"], cy["Rn"])
        if kx == "ptr" and ky == "ptr":
            if x[2] != y[2]:
                return False
            vx = new.store.get(x[1])
            vy = old.store.get(y[1])
            if vx is None or vy is None:
                return False
            if x[1][0] in ("C", "E", "B", "T", "U") and y[1][0] == x[1][0]:
                return self._leq_v(vx, vy, new, old, depth + 1)
            return False
        if ky == "punk":
            return kx in ("ptr", "null", "punk")
        if ky == "bunk":
            return kx in ("bool", "cmp", "bnot", "bunk", "peq")
        if ky == "opq":
            return kx == "opq"
        if kx == "clos" and ky == "clos" and x[1] == y[1] and len(x[2]) == len(y[2]):
            return all(self._leq_v(p, q, new, old, depth + 1) for p, q in zip(x[2], y[2]))
        return False

    def join(self, a, b):
        ip = self.ip
        ip.stats["joins"] += 1
        out = St()
        out.notes = a.notes
        # int locations that differ get fresh symbols; collect (new_sym, lin_a, lin_b)
        self.fresh = []
        self._extra = {}
        self._pmemo = {}
        self._depth = 0
        for oid in list(a.store):
            if oid in b.store:
                if oid[0] == "G":
                    continue
                if oid[0] == "M":
                    if a.store[oid] == b.store[oid]:
                        out.store[oid] = a.store[oid]
                    continue
                if oid[0] in ("H", "F"):
                    va, vb = a.store[oid], b.store[oid]
                    if va == vb:
                        out.store[oid] = va
                    elif oid[0] == "H":
                        sname = ip.sym("jh")
                        self.fresh.append((sname, va, vb))
                        out.store[oid] = Lin.sym(sname)
                    continue
                out.store[oid] = self.jv(a.store[oid], b.store[oid], a, b)
            # objects known only on one side are dropped (they are unreachable from the common part or re-materialised)
        out.store.update(self._extra)
        # ghost sets: rename object ids that were merged under a new object, then union (may) / intersect (must)
        ren_a = {xa: n for (xa, xb), n in self._pmemo.items()}
        ren_b = {xb: n for (xa, xb), n in self._pmemo.items()}
        gkeys = set(k for k in a.store if k[0] == "G") | set(k for k in b.store if k[0] == "G")
        for gk in gkeys:
            va = frozenset(ren_a.get(x, x) for x in a.store.get(gk, frozenset()))
            vb = frozenset(ren_b.get(x, x) for x in b.store.get(gk, frozenset()))
            if gk[1] in ("promoted", "promoted_any"):
                out.store[gk] = va & vb
            else:
                both = va & vb
                one = (va | vb) - both
                # object ids known on one side only are summarised ("some entry"): keeps loops convergent, stays a may-set
                summ = frozenset(x if (isinstance(x, str) or (isinstance(x, tuple) and x and x[0] == "tid")) else "*" for x in one)
                out.store[gk] = both | summ
        for fk in [k for k in a.store if k[0] == "F" and k in b.store]:
            va, vb = a.store[fk], b.store[fk]
            if va != vb and ren_a.get(va) is not None and ren_a.get(va) == ren_b.get(vb):
                out.store[fk] = ren_a[va]
        # ---- constraints of the joined state
        na, nb = a.num, b.num
        defs_a = {s: la for (s, la, lb) in self.fresh}
        defs_b = {s: lb for (s, la, lb) in self.fresh}
        keys_a = {(k, l.key()): (k, l) for (k, l) in na.cons}
        keys_b = {(k, l.key()): (k, l) for (k, l) in nb.cons}
        for key, c in keys_a.items():
            if key in keys_b or nb.entails(c):
                out.num.add(c)
        for key, c in keys_b.items():
            if key not in keys_a and na.entails(c):
                out.num.add(c)
        news = [s for (s, _a, _b) in self.fresh]
        if news:
            others = self.int_locs(out, exclude=set(news))
            have = set(o.key() for o in others)
            for rs in getattr(ip, "ref_syms", ()):
                l = Lin.sym(rs)
                if l.key() not in have:
                    others.insert(0, l)
            # (1) all affine equalities valid on both sides (Karr-style hull of the two affine spaces of location values)
            coords = [(Lin.sym(z), na.reduce_lin(defs_a[z]), nb.reduce_lin(defs_b[z])) for z in news]
            coords += [(y, na.reduce_lin(y), nb.reduce_lin(y)) for y in others]
            for eqc in affine_hull_equalities(coords):
                out.num.add(eqc)
            # (2) a few inequality templates on the changed locations
            key_others = others[:14]

            def inst(l, defs):
                for sname in list(l.t):
                    if sname in defs:
                        l = l.subst(sname, defs[sname])
                return l
            tmpl = []
            for x in news:
                X = Lin.sym(x)
                tmpl.append(("le", -X))
                for y in key_others + [Lin.sym(n) for n in news if n != x]:
                    tmpl.append(("le", X - y))
                    tmpl.append(("le", y - X))
            for c in tmpl:
                if na.entails((c[0], inst(c[1], defs_a))) and nb.entails((c[0], inst(c[1], defs_b))):
                    out.num.add(c)
            # (3) constraint transfer: a constraint that one side knows about the old value of a changed location is kept, phrased
            #     about the joined location, if the other side entails it for its own value of that location
            for (nself, defs_self, nother, defs_other) in (() if os.environ.get("LMV_NO_TRANSFER") else ((na, defs_a, nb, defs_b), (nb, defs_b, na, defs_a))):
                rev = {}
                for z in news:
                    d = defs_self.get(z)
                    if d is not None and not d.is_const() and len(d.t) == 1 and d.c == 0:
                        (sn, co), = d.t.items()
                        if co == 1 and sn not in rev and sn not in news:
                            rev[sn] = z
                if not rev:
                    continue
                n_done = 0
                for (k, l) in list(nself.cons):
                    hit = [sn for sn in l.t if sn in rev]
                    if not hit or n_done > 24 or len(l.t) > 4 or len(l.t) < 3:
                        continue        # (two-symbol relations are covered by the templates above)
                    l2 = l
                    for sn in hit:
                        l2 = l2.subst(sn, Lin.sym(rev[sn]))
                    n_done += 1
                    if nother.entails((k, inst(l2, defs_other))) and nself.entails((k, inst(l2, defs_self))):
                        out.num.add((k, l2))
        return out

    def int_locs(self, st, exclude):
        """linear expressions of interesting integer locations of the joined store (cache fields, table ghosts, entry sizes,
        cursor ghosts, live usize locals of the current frames)"""
        out = []
        seen = set()

        def add(l):
            if l.is_const():
                return
            if l.syms() & exclude:
                return
            k = l.key()
            if k not in seen:
                seen.add(k)
                out.append(l)

        def rec(v, depth):
            if depth > 5 or not isinstance(v, tuple):
                return
            if v[0] == "int":
                add(v[1])
            elif v[0] == "struct":
                for x in v[2].values():
                    rec(x, depth + 1)
            elif v[0] == "enum":
                for pay in v[3].values():
                    for x in pay.values():
                        rec(x, depth + 1)
            elif v[0] == "cursor":
                add(v[1]["R"])
                add(v[1]["Rn"])
            elif v[0] == "clos":
                for x in v[2]:
                    rec(x, depth + 1)
        for oid, v in st.store.items():
            if oid[0] == "H":
                if isinstance(v, Lin):
                    add(v)
                continue
            if oid[0] in ("F", "G", "M"):
                continue
            rec(v, 0)
        return out[:40]

    def jv(self, x, y, a, b):
        ip = self.ip
        if x == y:
            return x
        if x is None or y is None:
            return ("unk", next(ip.ctr), "?")
        kx, ky = x[0], y[0]
        if kx == "int" and ky == "int":
            s = ip.sym("j")
            self.fresh.append((s, x[1], y[1]))
            return vint(Lin.sym(s))
        if kx == "struct" and ky == "struct" and x[1] == y[1]:
            f = {}
            for k in set(x[2]) | set(y[2]):
                if k == "#req":
                    continue
                if k in x[2] and k in y[2]:
                    if k == "#cur":
                        f[k] = self.jcur(x[2][k], y[2][k])
                    elif k == "#tid":
                        tx, ty_ = x[2][k], y[2][k]
                        if tx == ty_:
                            f[k] = tx
                        else:
                            def base(t):
                                return t[1] if (isinstance(t, tuple) and t and t[0] in ("stale", "freed")) else t
                            st_x = isinstance(tx, tuple) and tx and tx[0] in ("stale", "freed")
                            st_y = isinstance(ty_, tuple) and ty_ and ty_[0] in ("stale", "freed")
                            fr_ = (isinstance(tx, tuple) and tx and tx[0] == "freed") or (isinstance(ty_, tuple) and ty_ and ty_[0] == "freed")
                            f[k] = (("freed" if fr_ else "stale"), base(tx)) if (st_x or st_y) and base(tx) == base(ty_) else None
                    elif k == "#seal_of" or (isinstance(k, str) and k.startswith("#lm:")):
                        f[k] = x[2][k] if x[2][k] == y[2][k] else None
                    else:
                        f[k] = self.jv(x[2][k], y[2][k], a, b)
            return ("struct", x[1], f)
        if kx == "enum" and ky == "enum" and x[1] == y[1]:
            var = x[2] if x[2] == y[2] else None
            pay = {}
            for vn in set(x[3]) | set(y[3]):
                if vn in x[3] and vn in y[3]:
                    pay[vn] = {k: self.jv(x[3][vn][k], y[3][vn][k], a, b) for k in set(x[3][vn]) & set(y[3][vn])}
                else:
                    pay[vn] = dict((x[3].get(vn) if vn in x[3] else y[3].get(vn)) or {})
            return ("enum", x[1], var, pay)
        if kx == "cursor" and ky == "cursor":
            cx, cy = x[1], y[1]
            if cx["dir"] == cy["dir"] and cx["seal"] == cy["seal"] and cx["tid"] == cy["tid"]:
                c = dict(cx)
                if cx["res"] != cy["res"]:
                    if cx["res"] not in (None, "seal") and cy["res"] not in (None, "seal") and self._depth < 6:
                        self._depth += 1
                        je = self.jv(a.store.get(cx["res"]), b.store.get(cy["res"]), a, b)
                        self._depth -= 1
                        if je[0] == "struct":
                            eo = ip.new_oid("E")
                            self._extra[eo] = je
                            c["res"] = eo
                        else:
                            c["res"] = None
                    else:
                        c["res"] = None
                for fld in ("R", "Rn"):
                    if cx[fld] != cy[fld]:
                        s = ip.sym("j" + fld)
                        self.fresh.append((s, cx[fld], cy[fld]))
                        c[fld] = Lin.sym(s)
                c["first"] = cx["first"] and cy["first"]
                return ("cursor", c)
            return ("unk", next(ip.ctr), "cursor?")
        if kx == "ptr" and ky == "ptr":
            # pointers to two heap objects of the same kind: join the pointees under a new object
            vx = a.store.get(x[1])
            vy = b.store.get(y[1])
            if vx is not None and vy is not None and x[2] == y[2] and x[1][0] == y[1][0] and x[1][0] in ("C", "E", "B", "T"):
                memo = self._pmemo.get((x[1], y[1]))
                if memo is not None:
                    return ("ptr", memo, x[2])
                if self._depth < 6:
                    self._depth += 1
                    j = self.jv(vx, vy, a, b)
                    self._depth -= 1
                    if j[0] == vx[0] or (vx[0] == "struct" and j[0] == "struct"):
                        oid = ip.new_oid(x[1][0])
                        self._extra[oid] = j
                        self._pmemo[(x[1], y[1])] = oid
                        return ("ptr", oid, x[2])
            return ("punk", next(ip.ctr))
        if kx in ("ptr", "null", "punk") and ky in ("ptr", "null", "punk"):
            return ("punk", next(ip.ctr))
        if kx == "clos" and ky == "clos" and x[1] == y[1] and len(x[2]) == len(y[2]):
            return ("clos", x[1], tuple(self.jv(p, q, a, b) for p, q in zip(x[2], y[2])))
        if kx in ("bool", "cmp", "bnot", "bunk", "peq") and ky in ("bool", "cmp", "bnot", "bunk", "peq"):
            return ("bunk", next(ip.ctr))
        if kx == "opq" and ky == "opq":
            return ("opq", next(ip.ctr))
        return ("unk", next(ip.ctr), "?")

    def jcur(self, x, y):
        if x is None or y is None:
            return None
        if x["dir"] == y["dir"] and x["seal"] == y["seal"] and x["tid"] == y["tid"]:
            c = dict(x)
            c["first"] = bool(x.get("first")) and bool(y.get("first"))
            for fld in ("R", "Rn"):
                if x[fld] != y[fld]:
                    s = self.ip.sym("j" + fld)
                    self.fresh.append((s, x[fld], y[fld]))
                    c[fld] = Lin.sym(s)
            return c
        return None
