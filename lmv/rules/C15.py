"""C15 - retain removes exactly the rejected entries, visiting each once in LRU order (DESIGN.md 3/C15)."""
from .. import e3
from . import structural


def run(ctx, res):
    if not ctx.require_roles(res):
        return
    structural.c15(ctx, res)
    # numeric consequences: len / current_size reflect the removals (C01/C02 obligations of `retain`)
    d = e3.run(ctx)
    for rec in d["records"]:
        # retain subtracts the *recorded* size of every entry it removes: "current_size reflects the removals" therefore also
        # rests on every other operation keeping the recorded sizes exact (the C02 invariant at all exits)
        if (rec["key"].startswith("retain:") and rec["prop"] in ("C01", "C02", "C05", "C07", "C13", "C16")) or \
                (rec["prop"] == "C02" and ":exit[" in rec["key"]):
            res.count("C15 E3 obligations")
            res.oblige(rec["desc"], rec["ok"], detail=rec.get("detail"), key="C15.E3:%s" % rec["key"], loc=rec["loc"],
                       rule="E3 abstract interpretation", msg="not proved: %s" % rec["desc"])
    res.floor("C15 E3 obligations", res.instances.get("C15 E3 obligations", 0), 60)
    res.trusted.append("lmv/absmodels.py; premise P-list")
