"""C11 (DESIGN.md 3/C11)."""
from .. import e3
from ..facts import span_str
from . import structural


def run(ctx, res):
    if not ctx.require_roles(res):
        return
    e3.apply(ctx, res, "C11", floor=structural.E3_FLOORS.get("C11"))
    fn = getattr(structural, "C11".lower(), None)
    if fn is not None:
        fn(ctx, res)
