"""C13 (DESIGN.md 3/C13)."""
from .. import e3
from ..facts import span_str
from . import structural


def run(ctx, res):
    if not ctx.require_roles(res):
        return
    e3.apply(ctx, res, "C13", floor=structural.E3_FLOORS.get("C13"))
    fn = getattr(structural, "C13".lower(), None)
    if fn is not None:
        fn(ctx, res)
    # growth, reserve and shrink are the crate's own relocation: hashbrown must never move buckets itself (the list would not follow)
    structural.no_bucket_relocation(ctx, res, "C13")
