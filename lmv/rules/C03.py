"""C03 (DESIGN.md 3/C03)."""
from .. import e3
from ..facts import span_str
from . import structural


def run(ctx, res):
    if not ctx.require_roles(res):
        return
    e3.apply(ctx, res, "C03", floor=structural.E3_FLOORS.get("C03"))
    fn = getattr(structural, "C03".lower(), None)
    if fn is not None:
        fn(ctx, res)
