"""C07 (DESIGN.md 3/C07)."""
from .. import e3
from ..facts import span_str
from . import structural


def run(ctx, res):
    if not ctx.require_roles(res):
        return
    e3.apply(ctx, res, "C07", floor=structural.E3_FLOORS.get("C07"))
    structural.c07(ctx, res)
    # "each traversed entry is the very entry a lookup of its key finds": every entry is filed under the hash that a lookup of its
    # key will compute -- the hash of its own key, built with the hash builder of the cache that owns the table (C04.1 rules)
    structural.c04(ctx, res, only_hash_agreement=True)
    # "no operation reads memory that has been moved out of": a table is handed (back) to the cache only after the entries that were
    # moved out of it have been marked empty (Drop discipline of the owning iterators)
    structural.check_owning_drops(ctx, res, "C07")
    structural.no_bucket_relocation(ctx, res, "C07")
    # the shape of the list itself: the splice / unlink primitives write exactly the links of a doubly-linked splice, and every splice
    # puts the node between the seal and the seal's current neighbour (C05.3 rules; a node spliced next to itself or next to a stale
    # neighbour breaks "mirror-image traversals of exactly len() entries")
    structural.c05(ctx, res, only_list_shape=True)
    # an entry that is evicted before it is promoted / a duplicate evicted before it is replaced leaves a freed-slot node in the
    # list: the ordering obligations of C03 are necessary conditions of list/table coherence too
    d = e3.run(ctx)
    for rec in d["records"]:
        if rec["prop"] == "C03" and ("before-eviction" in rec["key"]):
            res.count("C07 shared E3 obligations")
            res.oblige(rec["desc"], rec["ok"], detail=rec.get("detail"), key="C07.E3:%s" % rec["key"], loc=rec["loc"],
                       rule="E3 abstract interpretation", msg="not proved: %s" % rec["desc"])
