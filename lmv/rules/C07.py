"""C07 (DESIGN.md 3/C07)."""
from .. import e3
from ..facts import span_str
from . import structural


def run(ctx, res):
    if not ctx.require_roles(res):
        return
    e3.apply(ctx, res, "C07", floor=structural.E3_FLOORS.get("C07"))
    fn = getattr(structural, "C07".lower(), None)
    if fn is not None:
        fn(ctx, res)
