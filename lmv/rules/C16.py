"""C16 (DESIGN.md 3/C16)."""
from .. import e3
from ..facts import span_str
from . import structural


def run(ctx, res):
    if not ctx.require_roles(res):
        return
    e3.apply(ctx, res, "C16", floor=structural.E3_FLOORS.get("C16"))
    fn = getattr(structural, "C16".lower(), None)
    if fn is not None:
        fn(ctx, res)
