"""C04 - the cache is a faithful key-to-value map (DESIGN.md 3/C04)."""
from .. import e3
from . import structural


def run(ctx, res):
    if not ctx.require_roles(res):
        return
    e3.apply(ctx, res, "C04", floor=6)
    structural.c04(ctx, res)
    # keys that were drained must not come back: a `&mut`-holding draining iterator has to detach in its constructor (C17's rule)
    structural.c17(ctx, res)
    # shared necessary conditions: a rejected insertion must not have removed the old value (C10 atomicity); the duplicate leaves
    # before anything is evicted (C03); reallocation keeps every entry (C13 transparency)
    d = e3.run(ctx)
    for rec in d["records"]:
        if (rec["prop"] == "C10" and rec["key"].endswith(":atomic")) or (rec["prop"] == "C03" and "dedupe-before-eviction" in rec["key"]) or \
                (rec["prop"] == "C13" and rec["key"].endswith(":transparent")) or \
                (rec["prop"] in ("C03", "C11") and rec["key"].startswith("mutate:")):
            res.count("C04 shared E3 obligations")
            res.oblige(rec["desc"], rec["ok"], detail=rec.get("detail"), key="C04.E3:%s" % rec["key"], loc=rec["loc"],
                       rule="E3 abstract interpretation", msg="not proved: %s" % rec["desc"])
