"""C04 - the cache is a faithful key-to-value map (DESIGN.md 3/C04)."""
from .. import e3
from . import structural


def run(ctx, res):
    if not ctx.require_roles(res):
        return
    e3.apply(ctx, res, "C04", floor=6)
    structural.c04(ctx, res)
    # keys that were drained must not come back: a `&mut`-holding draining iterator has to detach in its constructor (C17's rule)
    structural.c17(ctx, res)
    # "across every table reallocation": entries are only ever relocated by the crate itself (which re-files and relinks them)
    structural.no_bucket_relocation(ctx, res, "C04")
    # shared necessary conditions: a rejected insertion must not have removed the old value (C10 atomicity); the duplicate leaves
    # before anything is evicted and a mutated entry cannot evict itself (C03 ordering); reallocation keeps every entry (C13
    # transparency); a failing mutate removes exactly the mutated key, a mutate of an absent key nothing (C11).  Evicting more than
    # necessary or mis-recording a size is *not* C04's business: evicted keys may vanish.
    d = e3.run(ctx)
    for rec in d["records"]:
        if (rec["prop"] == "C10" and rec["key"].endswith(":atomic")) or (rec["prop"] == "C03" and "dedupe-before-eviction" in rec["key"]) or \
                (rec["prop"] == "C13" and rec["key"].endswith(":transparent")) or \
                (rec["prop"] == "C03" and rec["key"].startswith("mutate:promote-before-eviction")) or \
                (rec["prop"] == "C11" and rec["key"].startswith("mutate:exit[") and
                 rec["key"].split(":")[-1] in ("only-that-entry-removed", "size-released", "absent-noop")):
            res.count("C04 shared E3 obligations")
            res.oblige(rec["desc"], rec["ok"], detail=rec.get("detail"), key="C04.E3:%s" % rec["key"], loc=rec["loc"],
                       rule="E3 abstract interpretation", msg="not proved: %s" % rec["desc"])
