"""C01 - the memory bound is never exceeded (DESIGN.md 3/C01): inductive proof by abstract interpretation."""
from .. import e3
from ..facts import span_str


def run(ctx, res):
    if not ctx.require_roles(res):
        return
    r, eff, cg = ctx.roles, ctx.eff, ctx.cg
    d = e3.apply(ctx, res, "C01", floor=150)
    # who may write the two fields (an output of the analysis, reported as evidence; every writer reachable from an entry
    # point was covered by the inductive run above)
    writers = {"CS": [], "MS": []}
    for p, dd in [(p_, d_) for (p_, d_) in eff.direct.items() if "#inl" not in p_]:
        for (f, _bb, _si, via) in dd["w_cache"]:
            if f == r.CS:
                writers["CS"].append(p)
            if f == r.MS:
                writers["MS"].append(p)
    res.analysed["writers_of_current_size"] = sorted(set(writers["CS"]))
    res.analysed["writers_of_max_size"] = sorted(set(writers["MS"]))
    # every body that writes CS/MS through a pointer must be reachable from an analysed entry point (else it is an
    # unanalysed mutation path, e.g. a new pub fn with a by-value receiver)
    analysed = set(d["stats"].keys())
    covered = set()
    for path in analysed:
        b = ctx.facts.body(path)
        if b is not None:
            covered |= set(cg.reach(b).keys())
    for fld in ("CS", "MS"):
        for p in sorted(set(writers[fld])):
            res.count("C01 field writers")
            b = ctx.facts.body(p)
            via = any(v for (f, _b, _s, v) in eff.direct[p]["w_cache"])
            if p not in covered and via:
                res.violate("C01:unanalysed-writer:%s" % p, "`%s` writes %s but is not reachable from any entry point the inductive proof covers"
                            % (p, "current_size" if fld == "CS" else "max_size"), span_str(b.span), {}, "C01 coverage")
    res.assumptions.append("Inv (current_size <= max_size, current_size = sum of recorded sizes) holds when a public method is entered")
    res.assumptions.append("sums of size estimates do not overflow usize (they are bounded by real memory)")
