"""C19 - operations through &LruCache never write (DESIGN.md section 3/C19)."""
from ..callgraph import ty_local_adts, ty_adts
from ..facts import span_str
from ..taint import TaintAnalysis

INTERIOR = ("std::cell::UnsafeCell", "std::cell::Cell", "std::cell::RefCell", "std::sync::Mutex", "std::sync::RwLock",
            "std::cell::OnceCell", "std::sync::OnceLock", "std::sync::atomic::")


def shared_receiver(b):
    ins = b.j.get("inputs") or []
    return bool(ins) and ins[0].get("k") == "ref" and not ins[0].get("mut")


def shared_entry_points(ctx):
    """pub fns of the cache with a `&self` receiver, trait-impl methods of the cache with a `&self` receiver,
    and every method of the ADTs those hand out (borrowing iterators)."""
    r = ctx.roles
    eps = []
    borrow_adts = set()
    for b in ctx.facts.bodies:
        if b.kind != "assoc_fn" or not b.impl_self or b.impl_self.get("name") != r.cache:
            continue
        ins = b.j.get("inputs") or []
        if not ins or not (ins[0].get("k") == "ref" and not ins[0].get("mut") and r.is_cache_ty(ins[0]["ty"])):
            continue
        if not b.impl_trait and b.vis != "pub":
            continue
        eps.append(b)
        for a in ty_local_adts(b.j["output"]):
            if a != r.cache and a in ctx.facts.adts and not _owns_cache(ctx, a):
                borrow_adts.add(a)
    # transitive: wrappers of borrowing iterators are found through outputs already (Keys/Values are outputs)
    for b in ctx.facts.bodies:
        if b.kind == "assoc_fn" and b.impl_self and b.impl_self.get("name") in borrow_adts:
            eps.append(b)
    return eps, sorted(borrow_adts)


def _owns_cache(ctx, adt):
    a = ctx.facts.adts[adt]
    for v in a["variants"]:
        for f in v["fields"]:
            if ctx.roles.cache in ty_adts(f["ty"]):
                return True
    return False


def constructs_cache(ctx, b):
    return ctx.roles.cache in ty_local_adts(b.j["output"]) and b.j["output"].get("k") == "adt" and b.j["output"]["name"] == ctx.roles.cache


def writers_reached(ctx, b):
    """[(path, body, [effect descriptions])] for every body reachable from b that writes cache/entry memory"""
    eff, cg = ctx.eff, ctx.cg
    bad = []
    for p, body in cg.reach(b).items():
        d = eff.direct[p]
        kinds = []
        if any(via for (_f, _b, _s, via) in d["w_cache"]):
            kinds.append("writes cache field " + ",".join(sorted({f for (f, _b, _s, via) in d["w_cache"] if via})))
        if any(via for (_f, _b, _s, via) in d["w_entry"]):
            kinds.append("writes Entry." + ",".join(sorted({f for (f, _b, _s, via) in d["w_entry"] if via})) + " through a pointer")
        if d["raw_mut"]:
            kinds.append("creates &mut / writes through *mut Entry")
        if d["free"]:
            kinds.append("frees an Entry")
        if d["copy_out"]:
            kinds.append("bitwise copy-out of an Entry")
        if d["swap_table"]:
            kinds.append("swaps a RawTable")
        for c in d["own_prim"]:
            kinds.append("duplicates/ends ownership bitwise (%s)" % c.callee)
        for (cls, c) in d["table"]:
            if cls in ("insert", "insert_grow", "remove", "drain", "clear", "into_iter"):
                kinds.append("RawTable %s" % cls)
        for c in d["unmodelled"]:
            kinds.append("unmodelled external %s" % c.callee)
        if kinds:
            bad.append((p, body, kinds))
    return bad


def run(ctx, res):
    if not ctx.require_roles(res):
        return
    r, eff, cg = ctx.roles, ctx.eff, ctx.cg
    eps, borrow_adts = shared_entry_points(ctx)
    res.analysed["shared_entry_points"] = [b.path for b in eps]
    res.analysed["borrowing_adts"] = borrow_adts
    res.floor("C19.shared-entry-points", len(eps), 25)
    # ---- rule 2a: non-constructing shared entry points reach no writer at all
    for b in eps:
        if constructs_cache(ctx, b):
            continue
        reach = cg.reach(b)
        res.count("C19.2a entry-point x reachable-body", len(reach))
        bad = writers_reached(ctx, b)
        ok = not bad
        for (p, body, kinds) in bad:
            chain = cg.find_path(b, lambda x, p=p: x.path == p) or [b.path, p]
            res.violate("C19.2:%s:reaches-writer:%s" % (b.path, p),
                        "shared entry point `%s` reaches `%s`, which %s; call chain: %s" % (b.path, p, "; ".join(kinds), " -> ".join(chain)),
                        span_str(body.span), {"chain": chain, "effects": kinds}, "C19.2 no-writer-reachable")
        res.oblige("C19.2a:%s reaches no writer" % b.path, ok, key="C19.2a:%s" % b.path) if ok else None
        res.sample({"entry_point": b.path, "reachable_bodies": len(reach), "writers_reached": [x[0] for x in bad]})
    # ---- rule 2b: cache-constructing shared entry points (clone): no write through a source-derived pointer
    for b in eps:
        if not constructs_cache(ctx, b):
            continue
        ta = TaintAnalysis(ctx)
        ta.run(b, frozenset([1]))
        res.count("C19.2b taint contexts", len(ta.memo))
        for (path, bb, desc, span, chain) in ta.writes:
            res.violate("C19.2b:%s:%s:%s" % (b.path, path, desc.split(":")[0]),
                        "`%s` (shared receiver) leads to a %s in `%s` (context: %s)" % (b.path, desc, path, chain),
                        span, {"chain": chain}, "C19.2b source-provenance")
        res.oblige("C19.2b:%s writes nothing of shared origin" % b.path, not ta.writes, key="C19.2b:%s" % b.path) if not ta.writes else None
        res.sample({"entry_point": b.path, "taint_contexts": len(ta.memo), "writes_through_shared_pointer": len(ta.writes)})
    # ---- rule 3: no interior mutability in the shared types; no pointer-constness casts on the way
    adts = [r.cache, r.entry, r.eptr] + borrow_adts
    for a in adts:
        ad = ctx.facts.adts.get(a)
        if not ad:
            continue
        for v in ad["variants"]:
            for f in v["fields"]:
                res.count("C19.3 field types")
                names = ty_adts(f["ty"])
                for n in names:
                    if any(n.startswith(x) for x in INTERIOR):
                        res.violate("C19.3:%s.%s:interior-mutability" % (a, f["name"]),
                                    "field `%s.%s` has interior mutability (%s): shared operations could write through it" % (a, f["name"], n),
                                    span_str(ad["span"]), {}, "C19.3 no-interior-mutability")
    for b in eps:
        for p, body in cg.reach(b).items():
            for bi, bl in enumerate(body.blocks):
                for st in bl["stmts"]:
                    if st["k"] == "assign" and st["rv"]["k"] == "cast":
                        rv = st["rv"]
                        kind = rv["kind"]
                        to = rv["ty"]
                        if "Transmute" in kind and (r.entry in ty_adts(to) or r.cache in ty_adts(to)):
                            res.violate("C19.3:%s:transmute" % p, "transmute to %s in `%s` reachable from shared `%s`" % (to["s"], p, b.path),
                                        span_str(st["span"]), {}, "C19.3 no-constness-cast")
                        if to.get("k") == "ptr" and to.get("mut") and "PtrToPtr" in kind:
                            src = rv["op"]
                            sty = src.get("place", {}).get("ty", "")
                            if sty.startswith("*const") and (r.entry in ty_adts(to) or r.cache in ty_adts(to)):
                                res.violate("C19.3:%s:const-to-mut" % p, "*const -> *mut cast of %s in `%s` reachable from shared `%s`" % (to["s"], p, b.path),
                                            span_str(st["span"]), {}, "C19.3 no-constness-cast")
                        if to.get("k") == "ptr" and to.get("mut") and sty_is_shared_ref(rv):
                            res.violate("C19.3:%s:ref-to-mut" % p, "&T -> *mut cast in `%s` reachable from shared `%s`" % (p, b.path),
                                        span_str(st["span"]), {}, "C19.3 no-constness-cast")
    res.trusted.append("lmv/models.py (external callee effects)")
    res.assumptions.append("hashbrown's read-only methods (find/get/len/capacity/iter) do not write; safe Rust cannot turn & into &mut")


def sty_is_shared_ref(rv):
    src = rv["op"]
    sty = src.get("place", {}).get("ty", "") if src.get("k") in ("copy", "move") else ""
    return sty.startswith("&") and not sty.startswith("&mut")
