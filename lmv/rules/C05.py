"""C05 (DESIGN.md 3/C05)."""
from .. import e3
from ..facts import span_str
from . import structural


def run(ctx, res):
    if not ctx.require_roles(res):
        return
    e3.apply(ctx, res, "C05", floor=structural.E3_FLOORS.get("C05"))
    structural.c05(ctx, res)
    # "the order reported by iteration": the iterators must walk the list correctly in both directions (C12's structural clauses)
    # (not the Drop discipline of the owning iterators: that is about ownership, not about order)
    structural.c12(ctx, res, with_drops=False)
