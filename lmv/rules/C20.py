"""C20 - hashing work per operation is bounded (DESIGN.md section 3/C20).

Cost domain: (c, PH, PD, BAD)  c = hash computations on the worst loop-free path, PH = number of
'one hash per held entry' loops, PD = number of 'one hash per departing entry' loops, BAD = loops
that hash without retiring an entry (or nested hashing loops).
"""
from ..cfg import cfg_of
from ..models import norm
from ..facts import span_str

ZERO = (0, 0, 0, 0)


def add(a, b):
    return tuple(x + y for x, y in zip(a, b))


def mx(a, b):
    # pointwise max is an upper bound of both paths
    return tuple(max(x, y) for x, y in zip(a, b))


ONCE = {"std::option::Option::map", "std::option::Option::and_then", "std::result::Result::map", "std::result::Result::map_err",
        "std::result::Result::unwrap_or_else", "std::option::Option::unwrap_or_else", "std::option::Option::map_or",
        "std::option::Option::ok_or_else", "std::option::Option::filter", "std::result::Result::and_then",
        "std::result::Result::map_or", "std::result::Result::map_or_else", "std::option::Option::map_or_else",
        "core::bool::<impl bool>::then", "std::option::Option::is_some_and", "std::result::Result::is_ok_and",
        "std::option::Option::or_else", "std::result::Result::or_else", "std::option::Option::get_or_insert_with"}
# (each of these std combinators calls the closure it is given at most once)


class HashCost:
    def __init__(self, ctx, res):
        self.ctx = ctx
        self.res = res
        self.memo = {}
        self.active = set()
        self.loopinfo = []   # (body.path, header, class, per-iteration cost)

    def is_hash_site(self, c):
        return c.user_kind and c.trait == "std::hash::Hash" and c.name == "hash"

    def call_cost(self, body, c):
        """cost of one execution of call c (excluding loops of the caller)"""
        if self.is_hash_site(c):
            return (1, 0, 0, 0)
        cost = ZERO
        if c.target is not None:
            cost = add(cost, self.cost(c.target))
        n = norm(c.resolved or c.nominal)
        m = c.model
        for cb in c.closures:
            cc = self.cost(cb)
            if cc == ZERO:
                continue
            if c.target is not None:
                # closure handed to a crate-local function: its calls are counted where it is invoked (Fn::call resolves)
                continue
            if n in ONCE:
                cost = add(cost, cc)
            elif m is not None and m.get("table") == "insert_grow":
                # rehash-all through the hasher argument: only when the table has to grow
                if self._presized_in(body):
                    self.res.note("P-cap: %s in %s receives a hashing closure but the destination table is created with an "
                                  "explicit capacity in the same body (no growth, hasher not called)" % (n, body.path))
                else:
                    cost = add(cost, (0, 1, 0, 0) if cc[0] <= 1 and cc[1:] == (0, 0, 0) else (0, 0, 0, 1))
            else:
                # called an unknown number of times by an external callee
                cost = add(cost, (0, 0, 0, 1))
                self.res.violate("C20.2:%s:hashing-closure-in:%s" % (body.path, n),
                                 "a closure that hashes (%s) is handed to `%s`, which may call it any number of times" % (cb.path, n),
                                 c.loc, {}, "C20.2 loop-discipline")
        for tb in c.type_targets:
            cost = add(cost, self.cost(tb))
        return cost

    def _presized_in(self, body):
        for c in self.ctx.cg.calls.get(body.path, []):
            if c.model and c.model.get("table") == "new" and "capacity" in norm(c.resolved or c.nominal):
                return True
        return False

    def retire_kind(self, body, c):
        """does this call (transitively) remove an entry from a table ('remove') or insert one into a table ('insert')?"""
        kinds = set()
        bodies = []
        if c.target is not None:
            bodies.append(c.target)
        bodies += [cb for cb in c.closures]
        if c.model and c.model.get("table") in ("remove",):
            kinds.add("remove")
        if c.model and c.model.get("table") in ("insert", "insert_grow"):
            kinds.add("insert")
        for b in bodies:
            for p, (cls, cc) in self.ctx.eff.trans(b)["table"]:
                if cls == "remove":
                    kinds.add("remove")
                if cls in ("insert", "insert_grow"):
                    kinds.add("insert")
        return kinds

    def cost(self, body):
        if body.path in self.memo:
            return self.memo[body.path]
        if body.path in self.active:
            return (0, 0, 0, 1)   # recursion reaching here: unbounded
        self.active.add(body.path)
        g = cfg_of(body)
        calls = {c.bb: c for c in self.ctx.cg.calls.get(body.path, [])}
        drops = {d["bb"]: d for d in self.ctx.cg.drops.get(body.path, [])}
        w = {}
        retire = {}
        for bb in g.normal_blocks():
            cst = ZERO
            if bb in calls:
                cst = self.call_cost(body, calls[bb])
                retire[bb] = self.retire_kind(body, calls[bb]) if cst != ZERO or True else set()
            if bb in drops:
                for tb in drops[bb]["targets"]:
                    cst = add(cst, self.cost(tb))
            w[bb] = cst
        loops = g.loops()
        bad_loops = []
        # classify hashing loops
        loop_sym = {}
        in_loop = {}
        for h, blocks in loops.items():
            for b in blocks:
                in_loop.setdefault(b, set()).add(h)
        for h, blocks in sorted(loops.items(), key=lambda kv: len(kv[1])):
            hashing = [b for b in blocks if w.get(b, ZERO) != ZERO]
            if not hashing:
                continue
            cls, detail = self._classify_loop(body, g, h, blocks, w, retire)
            self.loopinfo.append({"body": body.path, "header_bb": h, "class": cls, "detail": detail,
                                  "at": body.loc(h)})
            if cls == "PH":
                loop_sym[h] = (0, 1, 0, 0)
            elif cls == "PD":
                loop_sym[h] = (0, 0, 1, 0)
            else:
                loop_sym[h] = (0, 0, 0, 1)
                bad_loops.append(("C20.2:%s:hashing-loop:%s" % (body.path.split("#inl")[0], detail.split(";")[0]),
                                  "a loop in `%s` hashes keys without retiring (removing or relocating) one entry per hash: %s"
                                  % (body.path.split("#inl")[0], detail), body.loc(h), {"loop_header": h, "blocks": sorted(blocks)},
                                  "C20.2 loop-discipline"))
        # longest path over the DAG (back edges removed); blocks inside hashing loops weigh 0, the header carries the symbol
        back = set(g.back_edges())
        order = self._topo(g, back)
        best = {}
        for bb in order:
            preds = [p for p in g.npred[bb] if (p, bb) not in back and p in best]
            base = ZERO
            for p in preds:
                base = mx(base, best[p])
            own = w.get(bb, ZERO)
            hs = [h for h in in_loop.get(bb, ()) if h in loop_sym]
            if hs:
                own = ZERO
            if bb in loop_sym:
                own = loop_sym[bb]
            best[bb] = add(base, own)
        total = ZERO
        for bb in g.normal_blocks():
            if bb in best:
                total = mx(total, best[bb])
        self.active.discard(body.path)
        if bad_loops and "#inl" not in body.path:
            # the rebuild of a grow-and-retry loop may sit behind a private, loop-free helper: judge the body with such helpers inlined
            try:
                from ..inline import derive
                from .structural import _named_primitives
                prims = _named_primitives(self.ctx)
                eff = self.ctx.eff
                b2, inl = derive(self.ctx, body, lambda tg: tg.path not in prims and not tg.is_closure and not cfg_of(tg).loops()
                                 and not any(cls in ("insert", "insert_grow", "remove", "clear", "drain", "into_iter", "new")
                                             for (cls, _c) in eff.direct.get(tg.path, {}).get("table", [])), depth=3)
            except Exception:
                b2, inl = body, []
            if inl:
                n_before = len(self.res.violations)
                total2 = self.cost(b2)
                if len(self.res.violations) == n_before and not total2[3]:
                    self.res.note("C20: `%s` judged with %s inlined" % (body.path, ", ".join(x.split("::")[-1] for x in inl)))
                    bad_loops = []
                    total = total2
                else:
                    del self.res.violations[n_before:]
        for v in bad_loops:
            self.res.violate(*v)
        self.memo[body.path] = total
        return total

    def _topo(self, g, back):
        nodes = sorted(g.normal_blocks())
        indeg = {n: 0 for n in nodes}
        for n in nodes:
            for s in g.nsucc[n]:
                if (n, s) not in back and s in indeg:
                    indeg[s] += 1
        out = []
        st = [n for n in nodes if indeg[n] == 0]
        while st:
            x = st.pop()
            out.append(x)
            for s in g.nsucc[x]:
                if (x, s) in back or s not in indeg:
                    continue
                indeg[s] -= 1
                if indeg[s] == 0:
                    st.append(s)
        return out

    def _is_retry_loop(self, body, g, h, blocks, phb, w, retire):
        """loop { match no_grow_insert { Ok => leave, Err => rebuild; continue } } : the rebuild block `phb` is dominated by
        a failure-variant edge of a switch on an insert attempt inside the loop, whose success edge leaves the loop; nothing
        else in the loop hashes."""
        for b in blocks:
            if b != phb and w.get(b, ZERO) != ZERO:
                return False
        for xb in blocks:
            if "insert" not in retire.get(xb, ()):
                continue
            t = body.blocks[xb]["term"]
            if t["k"] != "call":
                continue
            dest = t["dest"]["l"]
            for bi in blocks:
                bl = body.blocks[bi]
                tt = bl["term"]
                if tt["k"] != "switch":
                    continue
                dl = tt["discr"].get("place", {}).get("l")
                if not any(st["k"] == "assign" and st["place"]["l"] == dl and st["rv"]["k"] == "discr"
                           and st["rv"]["place"]["l"] == dest for st in bl["stmts"]):
                    continue
                succ_ok = [tb for (val, tb) in tt["targets"] if val == 0]
                fail = [tb for (val, tb) in tt["targets"] if val != 0]
                if not succ_ok or not fail:
                    continue
                # success edge must not come back to the header
                leaves = all(h not in g.reachable_from(tb, True, avoid=()) or tb not in blocks for tb in succ_ok)
                # precise: from the success target no path returns to h
                leaves = all(h not in g.reachable_from(tb, True) for tb in succ_ok)
                if leaves and any(g.dominates(fb, phb) for fb in fail):
                    # ... and the rebuild really enlarges the table (otherwise the retry fails again and rebuilds again):
                    # its capacity argument must be at least twice the current capacity (a term, not a value)
                    if self._rebuild_grows(body, phb):
                        return True
                    self.res.note("retry loop in %s: the rebuild's capacity argument is not a multiple (>= 2x) of the current capacity" % body.path)
        return False

    def _rebuild_grows(self, body, phb):
        from ..terms import TermEval, subterms, poly_terms, show
        te = TermEval(self.ctx.facts, self.ctx.cg, inline=False)
        try:
            paths = te.paths(body, max_visits=2, max_paths=200)
        except Exception:
            return False
        seen = False
        for p in paths:
            if phb not in p:
                continue
            pr = te.eval_path(body, p)
            for (bb, full, argt, val, c) in pr.calls:
                if bb != phb:
                    continue
                seen = True
                ok = False
                for a in argt:
                    for t in subterms(a):
                        if isinstance(t, tuple) and t and t[0] == "poly":
                            for coef, mono in poly_terms(t):
                                if coef >= 2 and len(mono) == 1 and mono[0][0] == "call" and ("::capacity" in mono[0][1] or "::len" in mono[0][1]):
                                    ok = True
                if not ok:
                    return False
        return seen

    def _unused(self):
        return False

    def _classify_loop(self, body, g, h, blocks, w, retire):
        """one iteration = acyclic paths h -> back-edge tail inside `blocks`"""
        back = set(g.back_edges())
        # nested symbolic costs inside an iteration are not allowed
        for b in blocks:
            c = w.get(b, ZERO)
            if c[1] or c[2] or c[3]:
                if c == (0, 1, 0, 0) and self._is_retry_loop(body, g, h, blocks, b, w, retire):
                    self.res.note("P-cap: the grow-and-retry loop in %s rebuilds the table at most once per insertion "
                                  "(a rebuilt table of capacity >= 2*len admits the pending no-grow insert: hashbrown contract)" % body.path)
                    return "PH", "grow-and-retry: rebuild only on the failure edge of a no-grow insert whose success edge leaves the loop"
                return "BAD", "nested: block bb%d inside the loop has cost %r (a per-entry loop inside a loop)" % (b, c)
        # enumerate per-iteration worst-case hash count and check that every hashing path retires an entry
        # dataflow over the iteration DAG: state = (max hashes, may reach tail having hashed without retiring)
        order = [x for x in self._topo(g, back) if x in blocks]
        # facts per block: set of (hashed:int capped at 3, retired kinds frozenset)
        st = {h: {(0, frozenset())}}
        kinds_seen = set()
        worst = 0
        bad_path = False
        for bb in order:
            cur = st.get(bb)
            if cur is None:
                continue
            out = set()
            for (hc, rk) in cur:
                hc2 = min(3, hc + w.get(bb, ZERO)[0])
                rk2 = rk | frozenset(retire.get(bb, ()))
                out.add((hc2, rk2))
            succs = [s for s in g.nsucc[bb]]
            for s in succs:
                if s == h and (bb, s) in back:
                    for (hc, rk) in out:
                        worst = max(worst, hc)
                        if hc > 0:
                            if not rk:
                                bad_path = True
                            kinds_seen |= rk
                elif s in blocks and (bb, s) not in back:
                    st.setdefault(s, set()).update(out)
        if worst == 0:
            return "PD", "no hashing path completes an iteration"
        if bad_path:
            return "BAD", "an iteration can hash without removing or inserting an entry"
        if worst > 1:
            return "BAD", "an iteration can hash %d times" % worst
        if "remove" in kinds_seen and "insert" not in kinds_seen:
            return "PD", "1 hash per removed entry"
        if "insert" in kinds_seen and "remove" not in kinds_seen:
            return "PH", "1 hash per relocated/inserted entry"
        return "PD" if "remove" in kinds_seen else "BAD", "mixed retire kinds %s" % sorted(kinds_seen)


HASH_FREE = ["iter", "keys", "values", "drain", "into_keys", "into_values", "clear", "peek_lru", "peek_mru", "get_lru",
             "len", "is_empty", "current_size", "max_size", "capacity", "hasher"]
REBUILD = ["reserve", "try_reserve", "shrink_to", "shrink_to_fit"]          # + Clone::clone
GROW_ON_INSERT = ["insert", "try_insert"]
EVICTING = ["insert", "mutate", "set_max_size", "retain"]


def run(ctx, res):
    if not ctx.require_roles(res):
        return
    r, cg, eff = ctx.roles, ctx.cg, ctx.eff
    hc = HashCost(ctx, res)
    sites = [c for p, cs in cg.calls.items() if "#inl" not in p for c in cs if hc.is_hash_site(c)]
    res.floor("C20.hash-sites", len(sites), 1)
    res.analysed["hash_sites"] = [{"in": c.body.path, "at": c.loc} for c in sites]
    # entry points: pub fns of the cache, trait impls of the cache, all methods of the iterator ADTs
    eps = []
    iter_adts = set()
    for b in r.pub_methods():
        eps.append(b)
    for b in ctx.facts.bodies:
        if b.kind == "assoc_fn" and b.impl_trait and b.impl_self and b.impl_self.get("name") == r.cache:
            eps.append(b)
    from ..callgraph import ty_local_adts
    for b in list(eps):
        for a in ty_local_adts(b.j["output"]):
            if a != r.cache and a in ctx.facts.adts and ctx.facts.adts[a]["vis"] == "pub" and "Error" not in a:
                iter_adts.add(a)
    # wrappers returned by into_iter etc. are outputs as well; add every method of those ADTs
    for b in ctx.facts.bodies:
        if b.kind == "assoc_fn" and b.impl_self and b.impl_self.get("name") in iter_adts:
            eps.append(b)
    res.floor("C20.entry-points", len(eps), 60)
    costs = {}
    for b in eps:
        costs[b.path] = hc.cost(b)
        res.count("C20.3 entry points costed")
    res.analysed["loops"] = hc.loopinfo
    res.analysed["costs"] = {p: list(c) for p, c in costs.items() if c != ZERO}
    for li in hc.loopinfo[:6]:
        res.sample(li)
    name_of = {b.path: b for b in eps}
    for p, c in costs.items():
        b = name_of[p]
        nm = b.name
        is_cache_inherent = (b.impl_self and b.impl_self.get("name") == r.cache and not b.impl_trait)
        is_clone = b.impl_trait == "std::clone::Clone"
        ok = True
        if c[3]:
            ok = False  # already reported at the loop
        if c[0] > 2:
            ok = False
            res.violate("C20.3:%s:loop-free-hashes>2" % p, "`%s` can compute %d key hashes on one loop-free path (bound: 2)" % (p, c[0]),
                        span_str(b.span), {"cost": c}, "C20.3 per-operation bound")
        allowed_ph = 1 if (is_clone or (is_cache_inherent and nm in REBUILD + GROW_ON_INSERT)) else 0
        if c[1] > allowed_ph:
            ok = False
            res.violate("C20.3:%s:rehash-all" % p,
                        "`%s` reaches %d 'hash every held entry' loop(s) on one path; allowed: %d" % (p, c[1], allowed_ph),
                        span_str(b.span), {"cost": c}, "C20.3 per-operation bound")
        # loops of class PD retire one entry per hash (checked per loop), so any number of them in sequence still computes one hash
        # per departing entry; nesting is class BAD.  (The count used to be capped at 1: a false alarm on an eviction done in two steps.)
        allowed_pd = 99 if (is_cache_inherent and nm in EVICTING) else 0
        if c[2] > allowed_pd:
            ok = False
            res.violate("C20.3:%s:hash-per-departing" % p,
                        "`%s` reaches %d 'hash per departing entry' loop(s); allowed: %d" % (p, c[2], allowed_pd),
                        span_str(b.span), {"cost": c}, "C20.3 per-operation bound")
        hash_free = (is_cache_inherent and nm in HASH_FREE) or (b.impl_self and b.impl_self.get("name") in iter_adts) or \
                    (b.impl_trait in ("std::fmt::Debug", "std::ops::Drop", "std::iter::IntoIterator") and b.impl_self.get("name") == r.cache)
        if hash_free and c != ZERO:
            ok = False
            chain = cg.find_path(b, lambda x: bool(eff.direct[x.path]["hash"])) or []
            res.violate("C20.4:%s:hashes" % p, "`%s` must not hash at all but reaches a hash site: %s (cost %r)" % (p, " -> ".join(chain), c),
                        span_str(b.span), {"cost": c, "chain": chain}, "C20.4 hash-free operations")
        if is_cache_inherent and nm == "set_max_size" and (c[0] or c[1]):
            ok = False
            res.violate("C20.4:%s:hashes-outside-eviction" % p, "`set_max_size` hashes outside the eviction loop (cost %r)" % (c,),
                        span_str(b.span), {"cost": c}, "C20.4 hash-free operations")
        res.oblige("C20.3/4 %s cost=%r within bounds" % (p, c), ok, key="C20.3:%s" % p) if ok else None
    # growth-on-insert: the per-held-entry loop is only reached behind the failure edge of the no-grow table insert
    _check_growth_guard(ctx, res, hc)
    res.trusted.append("lmv/models.py: RawTable::{find,get,get_mut,remove_entry,try_insert_no_grow} never hash; Option::map calls its closure at most once")
    res.assumptions.append("hash cost = executions of <K as Hash>::hash; BuildHasher/Hasher::finish are per-hash bookkeeping")


def _check_growth_guard(ctx, res, hc):
    """every call with PH>0 on the insertion path sits behind the failure (non-first) variant edge of a switch
    on the result of a call that reaches a no-grow table insert"""
    r, cg = ctx.roles, ctx.cg
    starts = [r.method(n) for n in GROW_ON_INSERT if r.method(n)]
    seen = set()
    for s in starts:
        for p, body in cg.reach(s, include_drops=False).items():
            if p in seen:
                continue
            seen.add(p)
            g = cfg_of(body)
            for c in cg.calls.get(p, []):
                if c.target is None:
                    continue
                cc = hc.cost(c.target)
                if not cc[1]:
                    continue
                # does the callee itself contain the loop, or just pass through?  we guard at the outermost site
                # inside the insertion path whose own body does an insert attempt.
                tries = [x for x in cg.calls.get(p, []) if "insert" in hc.retire_kind(body, x) and x is not c]
                if not tries:
                    continue
                res.count("C20.3 growth sites")
                ok = False
                for tcall in tries:
                    dest = tcall.term["dest"]["l"]
                    # find switch on discriminant(dest)
                    for bi, bl in enumerate(body.blocks):
                        t = bl["term"]
                        if t["k"] != "switch":
                            continue
                        dl = t["discr"].get("place", {}).get("l")
                        isd = any(st["k"] == "assign" and st["place"]["l"] == dl and st["rv"]["k"] == "discr"
                                  and st["rv"]["place"]["l"] == dest for st in bl["stmts"])
                        if not isd:
                            continue
                        for (val, tb) in t["targets"]:
                            if val != 0 and g.dominates(tb, c.bb):
                                ok = True
                res.oblige("C20.3 growth in %s only behind a failed no-grow insert" % p, ok,
                           key="C20.3:%s:unguarded-rehash" % p, loc=c.loc, rule="C20.3 demand-driven growth",
                           msg="`%s` calls `%s` (rehashes every held entry) without being on the failure edge of a no-grow table insert"
                               % (p, c.callee))
