"""C17 (DESIGN.md 3/C17)."""
from .. import e3
from ..facts import span_str
from . import structural


def run(ctx, res):
    if not ctx.require_roles(res):
        return
    e3.apply(ctx, res, "C17", floor=structural.E3_FLOORS.get("C17"))
    fn = getattr(structural, "C17".lower(), None)
    if fn is not None:
        fn(ctx, res)
