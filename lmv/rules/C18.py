"""C18 - thread-safety and borrowing contracts are enforced at compile time (DESIGN.md section 3/C18)."""
import re
from ..probes import Probe, run_probes, MARK, ProbeError
from ..facts import span_str

PRELUDE = """#![allow(unused)]
use lru_mem::LruCache;
use std::rc::Rc;
use std::cell::Cell;
use std::collections::hash_map::RandomState;
fn is_send<T: Send>() {}
fn is_sync<T: Sync>() {}
#[derive(Default, Clone)] struct NotSend(Rc<()>);          // !Send, !Sync
#[derive(Default, Clone)] struct SendNotSync(Cell<u8>);     // Send, !Sync
#[derive(Default, Clone)] struct Good(u8);                  // Send + Sync
"""


def regions_in(ty, out=None, depth=0):
    if out is None:
        out = []
    if not isinstance(ty, dict) or depth > 10:
        return out
    k = ty.get("k")
    if k == "ref":
        out.append(ty.get("region"))
        regions_in(ty["ty"], out, depth + 1)
    elif k == "region":
        out.append(ty.get("s"))
    else:
        if "ty" in ty:
            regions_in(ty["ty"], out, depth + 1)
        for key in ("args", "tys"):
            for t in ty.get(key, []) or []:
                regions_in(t, out, depth + 1)
    return out


def run(ctx, res):
    if not ctx.require_roles(res):
        return
    r = ctx.roles
    facts = ctx.facts
    cache_short = r.cache.split("::")[-1]
    # ------------------------------------------------------------------ 1. impl bounds from facts
    auto = [i for i in facts.impls if i.get("of_trait") and i.get("auto_trait")]
    res.count("C18.1 auto-trait impls", len(auto))
    seen = {}
    for i in auto:
        tr = i["trait"]
        st = i["self_ty"]
        if i.get("polarity") and "Negative" in i["polarity"]:
            continue
        if not (st.get("k") == "adt" and st.get("name") == r.cache):
            res.violate("C18.1:extra-auto-impl:%s:%s" % (tr, st.get("s")),
                        "`unsafe impl %s for %s`: an auto-trait impl for a type other than the cache widens thread-safety without "
                        "the K/V/S bounds being checked here" % (tr, st.get("s")), span_str(i["span"]), {}, "C18.1 impl-bounds")
            continue
        seen[tr] = i
        params = [g["name"] for g in i["generics"] if g["kind"] == "type"]
        need = {"%s: %s" % (p, tr) for p in params}
        have = set(i["predicates"])
        missing = sorted(need - have)
        extra = sorted(p for p in have - need if not p.endswith(": std::marker::Sized"))
        ok = not missing
        res.oblige("C18.1 `impl %s for %s` requires %s" % (tr.split("::")[-1], st["s"], sorted(need)), ok,
                   detail={"predicates": sorted(have)}, key="C18.1:%s:missing-bound:%s" % (tr, ",".join(missing)),
                   loc=span_str(i["span"]), rule="C18.1 impl-bounds",
                   msg="`unsafe impl %s for %s` lacks the bound(s) %s: the cache would be %s even when that parameter is not"
                       % (tr, st["s"], missing, tr.split("::")[-1]))
        if extra:
            res.violate("C18.1:%s:extra-bound:%s" % (tr, ",".join(extra)),
                        "`impl %s for %s` has extra bound(s) %s: the cache is not %s for all %s parameters"
                        % (tr, st["s"], extra, tr.split("::")[-1], tr.split("::")[-1]), span_str(i["span"]), {}, "C18.1 impl-bounds")
    for tr in ("std::marker::Send", "std::marker::Sync"):
        if tr not in seen:
            # without an explicit impl the raw pointers make the cache !Send/!Sync: positive probes will report it
            res.note("no explicit `impl %s` for the cache found" % tr)
    # ------------------------------------------------------------------ 2./3. auto-trait probes
    probes = []
    T3 = "LruCache<%s, %s, %s>"
    probes.append(Probe("send_pos", PRELUDE + "fn f<K: Send, V: Send, S: Send>() { is_send::<LruCache<K, V, S>>(); }\n",
                        None, what="LruCache<K,V,S>: Send for all K,V,S: Send"))
    probes.append(Probe("sync_pos", PRELUDE + "fn f<K: Sync, V: Sync, S: Sync>() { is_sync::<LruCache<K, V, S>>(); }\n",
                        None, what="LruCache<K,V,S>: Sync for all K,V,S: Sync"))
    for pos, nm in enumerate(("K", "V", "S")):
        for (trait, bad, fn) in (("Send", "NotSend", "is_send"), ("Sync", "SendNotSync", "is_sync")):
            tys = ["Good", "Good", "Good"]
            tys[pos] = bad
            src = PRELUDE + "fn f() {\n    %s::<%s>(); %s\n}\n" % (fn, T3 % tuple(tys), MARK)
            twin = PRELUDE + "fn f() {\n    %s::<%s>();\n}\n" % (fn, T3 % ("Good", "Good", "Good"))
            probes.append(Probe("%s_neg_%s" % (trait.lower(), nm), src, {"E0277"}, twin,
                                what="LruCache is not %s when %s is not %s" % (trait, nm, trait)))
    # ------------------------------------------------------------------ 4. borrow probes generated from the API
    apis = []
    for b in r.pub_methods():
        out = b.j["output"]
        regs = regions_in(out)
        if not regs:
            continue
        ins = b.j["inputs"]
        if not ins or ins[0].get("k") != "ref" or not r.is_cache_ty(ins[0]["ty"]):
            # constructor-like fn returning something with a lifetime: not expected
            res.violate("C18.4:%s:no-receiver" % b.path, "pub fn `%s` returns a borrowed type without borrowing a receiver" % b.path,
                        span_str(b.span), {}, "C18.4 signature")
            continue
        self_reg = ins[0]["region"]
        res.count("C18.4 APIs returning borrows")
        # (i) signature rule
        bad = sorted({x for x in regs if x != self_reg})
        res.oblige("C18.4i every lifetime in the output of `%s` is the receiver's" % b.name, not bad,
                   detail={"sig": b.j["sig"]}, key="C18.4i:%s:unbound-lifetime" % b.path, loc=span_str(b.span), rule="C18.4 signature",
                   msg="the return type of `%s` mentions lifetime(s) %s that are not the receiver borrow's (%s): signature `%s` "
                       "does not keep the cache borrowed" % (b.path, bad, self_reg, b.j["sig"]))
        apis.append(b)
    res.floor("C18.4 APIs returning borrows", len(apis), 12)
    # (iii) receiver rule: an operation that writes to the cache must demand exclusive access, otherwise safe code could
    #       change the cache while references / borrowing iterators obtained from it are alive
    from .C19 import writers_reached, constructs_cache
    for b in r.pub_methods():
        ins = b.j["inputs"]
        if not ins or ins[0].get("k") != "ref" or ins[0].get("mut") or not r.is_cache_ty(ins[0]["ty"]):
            continue
        if constructs_cache(ctx, b):
            continue
        res.count("C18.4iii shared-receiver methods")
        bad = writers_reached(ctx, b)
        res.oblige("C18.4iii `%s(&self)` performs no write" % b.name, not bad, key="C18.4iii:%s:writes-through-shared-receiver" % b.path,
                   loc=span_str(b.span), rule="C18.4 receiver",
                   msg="pub fn `%s` takes `&self` but reaches %s: it can be called while borrows of the cache are alive"
                       % (b.path, ", ".join("%s (%s)" % (p, "; ".join(k)) for p, _b, k in bad[:3])))
    unprobed = []
    for b in apis:
        args = []
        okargs = True
        for t in b.j["inputs"][1:]:
            if t.get("k") == "ref" and t["ty"].get("k") == "param":
                args.append('"k"')
            elif t.get("k") == "prim" and t["s"] == "usize":
                args.append("0usize")
            else:
                okargs = False
        if not okargs:
            unprobed.append(b.path)
            continue
        mutrecv = b.j["inputs"][0].get("mut")
        call = "cache.%s(%s)" % (b.name, ", ".join(args))
        body = "fn probe(mut cache: LruCache<String, String>) {\n    let held = %s;\n    %%s\n    %%s\n}\n" % call
        use = "drop(held);"
        for (kind, stmt, codes) in (("mutate", "cache.clear();", {"E0502", "E0499"}), ("drop", "drop(cache);", {"E0505"})):
            src = PRELUDE + body % (stmt + " " + MARK, use)
            twin = PRELUDE + body % (use, stmt)
            probes.append(Probe("borrow_%s_%s" % (b.name, kind), src, codes, twin,
                                what="result of %s keeps the cache borrowed across %s" % (b.name, stmt)))
        # items of iterators outlive the iterator but not the cache borrow
        out = b.j["output"]
        if out.get("k") == "adt" and out.get("local") and not mutrecv:
            body2 = ("fn probe(mut cache: LruCache<String, String>) {\n    let held = { let mut it = %s; it.next() };\n"
                     "    %%s\n    %%s\n}\n" % call)
            src = PRELUDE + body2 % ("cache.clear(); " + MARK, use)
            twin = PRELUDE + body2 % (use, "cache.clear();")
            probes.append(Probe("borrow_%s_item" % b.name, src, {"E0502", "E0499"}, twin,
                                what="items yielded by %s() keep the cache borrowed after the iterator is gone" % b.name))
            body3 = ("fn probe(mut cache: LruCache<String, String>) {\n    let held = { let mut it = %s; it.next_back() };\n"
                     "    %%s\n    %%s\n}\n" % call)
            probes.append(Probe("borrow_%s_item_back" % b.name, PRELUDE + body3 % ("drop(cache); " + MARK, use), {"E0505"},
                                PRELUDE + body3 % (use, "drop(cache);"),
                                what="items yielded from the back by %s() keep the cache borrowed" % b.name))
    for p in unprobed:
        res.violate("C18.4:%s:unprobed" % p, "pub fn `%s` returns a borrow but no probe could be generated for its argument types "
                    "(fail closed: extend lmv/rules/C18.py)" % p, None, {}, "C18.4 probes")
    try:
        results = run_probes(probes, ctx.repo)
    except ProbeError as e:
        res.violate("C18:probe-build-failed", str(e)[:500], None, {}, "C18 probes")
        return
    for pr in results:
        res.count("C18 probes")
        res.oblige("probe %s: %s" % (pr["name"], pr["what"]), pr["ok"], detail=pr.get("why"),
                   key="C18.probe:%s" % pr["name"], rule="C18 compiler probe",
                   msg="compiler probe `%s` (%s) failed: %s" % (pr["name"], pr["what"], pr.get("why")))
    for pr in results[:4] + results[-3:]:
        res.sample(pr)
    res.trusted.append("rustc (stable) type and borrow checker")
    res.assumptions.append("probe instantiation K=V=String, S=default hasher for the borrow probes; the signature rule (4i) covers all instantiations")
