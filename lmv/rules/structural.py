"""Structural (E1/E2/E4/E5) clauses of the behavioural properties; E3 clauses come from lmv/e3.py."""
from ..cfg import cfg_of
from ..facts import span_str
from ..models import norm

E3_FLOORS = {"C05": 40, "C07": 500, "C03": 14, "C10": 22, "C11": 12, "C13": 12, "C14": 4, "C16": 500, "C17": 1, "C12": 4}   # ~half of what was counted


# =====================================================================================================================
#  helpers
# =====================================================================================================================
from ..terms import TermEval, show, strip_refs, subterms, TooComplex
from ..callgraph import ty_adts, ty_local_adts


def _te(ctx, inline=True):
    k = "_te_%s" % inline
    if not hasattr(ctx, k):
        setattr(ctx, k, TermEval(ctx.facts, ctx.cg, inline=inline))
    return getattr(ctx, k)


def cursor_adts(ctx):
    """local ADTs that are list cursors: >= 2 fields of the handle type and an Iterator impl"""
    r = ctx.roles
    out = []
    for name, a in ctx.facts.adts.items():
        if a["kind"] != "struct":
            continue
        eps = [f["name"] for f in a["variants"][0]["fields"] if r.is_eptr_ty(f["ty"])]
        if len(eps) >= 2 and r.trait_method("std::iter::Iterator", "next", name) is not None:
            out.append((name, eps))
    return out


def copy_out_adts(ctx):
    """cursor ADTs whose next/next_back reach the bitwise copy-out primitive"""
    out = []
    for name, eps in cursor_adts(ctx):
        nb = ctx.roles.trait_method("std::iter::Iterator", "next", name)
        if nb is not None and ctx.eff.trans(nb)["copy_out"]:
            out.append(name)
    return out


def holders_of(ctx, adt_names):
    """local ADTs that contain (transitively, by value) one of the given ADTs; returns dict name -> field path"""
    res = {}
    changed = True
    names = set(adt_names)
    while changed:
        changed = False
        for n, a in ctx.facts.adts.items():
            if n in names or n in res:
                continue
            for f in a["variants"][0]["fields"] if a["kind"] == "struct" else []:
                t = f["ty"]
                if t.get("k") == "adt" and (t["name"] in names or t["name"] in res):
                    res[n] = f["name"]
                    changed = True
    return res


def _canon(s, repl):
    for a, b in repl:
        s = s.replace(a, b)
    return s


# =====================================================================================================================
#  C12: the two-cursor state machines
# =====================================================================================================================
_COPY_OUT_RE = None


def _norm_copy_out(text):
    """every spelling of the bitwise copy-out primitive (ptr::read(p), p.read(), read_unaligned, ...) becomes READ(p)"""
    global _COPY_OUT_RE
    import re
    if _COPY_OUT_RE is None:
        names = ["std::ptr::read", "std::ptr::read_unaligned", "std::ptr::read_volatile", "std::ptr::mut_ptr::<impl *mut T>::read",
                 "std::ptr::const_ptr::<impl *const T>::read", "std::ptr::NonNull::<T>::read", "std::ptr::NonNull::read"]
        _COPY_OUT_RE = re.compile("(?:%s|std::ptr::(?:mut_ptr|const_ptr)::<impl \\*(?:mut|const) [^()]*?>::read(?:_unaligned|_volatile)?)(?:::<[^()]*?>)?\\("
                                  % "|".join(re.escape(n) for n in names))
    return _COPY_OUT_RE.sub("READ(", text)


def _view(ctx, b, depth=3):
    """`b` with its private, non-primitive helpers inlined at MIR level (cached); `b` itself if there is nothing to inline"""
    cache = ctx.__dict__.setdefault("_views", {})
    if b.path not in cache:
        try:
            b2, inl = derive_inlined(ctx, b, depth=depth)
        except Exception:
            b2, inl = b, []
        cache[b.path] = b2 if inl else b
    return cache[b.path]


def _relax_machine(mc):
    out = []
    for (conds, ret, stores) in mc["paths"]:
        st2 = tuple(s for s in stores if not (s[1] == "null" and s[0] != mc["E"] and ("meet", None, True) in conds))
        out.append((conds, ret, st2))
    return sorted(out, key=str)


def _machine_ok(ctx, mc, m):
    r = ctx.roles
    link = r.L_LRU if m == "next" else r.L_MRU
    return _relax_machine(mc) == expected_machine(mc["Y"], mc["O"], mc["E"], link)


def best_cursor_machine(ctx, b, eps, m, res=None):
    """the cursor machine of `b`; when it is unreadable or deviates, the machine of `b` with its private helpers inlined (the step
    may be shared with the other direction through a helper that takes a direction flag)"""
    mc, why = cursor_machine(ctx, b, eps)
    if mc is None or not _machine_ok(ctx, mc, m):
        b2 = _view(ctx, b)
        if b2 is not b:
            mc2, why2 = cursor_machine(ctx, b2, eps)
            if mc2 is not None and (mc is None or _machine_ok(ctx, mc2, m)):
                if res is not None:
                    res.note("`%s` judged with its private helpers inlined" % b.path)
                return mc2, why2
    return mc, why


def cursor_machine(ctx, body, eps):
    """canonical description of a next/next_back body of a cursor ADT, or (None, reason)"""
    r = ctx.roles
    te = _te(ctx, True)
    try:
        results = te.all_results(body, max_paths=40)
    except TooComplex as e:
        return None, str(e)
    if not results:
        return None, "no normal path"
    raw = r.EPTR_RAW
    # which cursor field is dereferenced for the yielded entry?
    Y = None
    for res in results:
        s = show(res.ret)
        for f in eps:
            if ("p1.%s.%s" % (f, raw)) in s:
                if Y is not None and Y != f:
                    return None, "yields through two different cursors (%s, %s)" % (Y, f)
                Y = f
    if Y is None:
        return None, "no cursor field is dereferenced for the yielded item"
    others = [f for f in eps if f != Y]
    if len(others) != 1:
        return None, "expected exactly two cursor fields"
    O = others[0]
    paths = []
    E = None
    for res in results:
        conds = []
        for (d, chosen, _bb) in res.conds:
            ds = show(d)
            m = None
            for f in eps:
                if ds.endswith("::is_null(*p1.%s.%s)" % (f, raw)):
                    m = ("isnull", f, chosen != 0)
            if m is None and (" Eq " in ds or " Ne " in ds or "PartialEq>::ne(" in ds or "PartialEq::ne(" in ds):
                import re as _re
                fs = sorted(f for f in eps if _re.search(r"p1\.%s(?![A-Za-z0-9_])" % _re.escape(f), ds))
                if fs == sorted(eps):
                    neg = (" Ne " in ds or "::ne(" in ds) != ds.startswith("!")       # `a != b` / `!(a == b)` test the same thing
                    m = ("meet", None, (chosen == 0) if neg else (chosen != 0))
            if m is None:
                if ds in ("0", "1", "true", "false") or (isinstance(d, tuple) and d and d[0] == "const") or te._const_discr(d) is not None:
                    continue        # a test on a compile-time constant (a direction flag of an inlined helper) describes nothing
                m = ("other", ds, chosen)
            if m in conds:
                continue            # the same test, tested again (a helper returned what it had tested)
            conds.append(m)
        rs = _norm_copy_out(show(res.ret))
        if res.ret[0] == "agg" and res.ret[3] == "None":
            ret = "None"
        elif res.ret[0] == "agg" and res.ret[3] == "Some":
            ent_b = "**p1.%s.%s" % (Y, raw)
            ent_t = "READ(*p1.%s.%s)" % (Y, raw)
            ok_b = (ent_b + "." + r.E_KEY) in rs and (ent_b + "." + r.E_VAL) in rs
            ok_t = (ent_t + "." + r.E_KEY) in rs and (ent_t + "." + r.E_VAL) in rs
            # key first, value second
            ki = rs.find("." + r.E_KEY + ")")
            vi = rs.find("." + r.E_VAL + ")")
            ret = "Some(kv of entry at own cursor)" if (ok_b or ok_t) and 0 <= ki < vi else "Some(?: %s)" % rs[:120]
        else:
            ret = "?: " + rs[:120]
        stores = []
        for (pt, val, _bb) in res.stores:
            ps, vs = show(pt), show(val)
            tgt = None
            for f in eps:
                if ps == "*p1.%s" % f:
                    tgt = f
            if tgt is None:
                stores.append(("other", ps, vs))
                continue
            if "null_mut" in vs or "std::ptr::null" in vs:
                stores.append((tgt, "null"))
            else:
                link = None
                for l in r.links:
                    if vs.endswith(".%s" % l) and (("p1.%s.%s" % (Y, raw)) in vs):
                        link = l
                stores.append((tgt, "link:%s" % link if link else "?: " + vs[:100]))
        for (kind, f, val) in conds:
            if kind == "isnull":
                if E is not None and E != f:
                    return None, "tests two different cursors for exhaustion (%s, %s)" % (E, f)
                E = f
        paths.append((tuple(conds), ret, tuple(sorted(stores))))
    return {"Y": Y, "O": O, "E": E, "paths": sorted(paths, key=str)}, None


def expected_machine(Y, O, E, link):
    return sorted([
        ((("isnull", E, False), ("meet", None, False)), "Some(kv of entry at own cursor)", ((Y, "link:%s" % link),)),
        ((("isnull", E, False), ("meet", None, True)), "Some(kv of entry at own cursor)", ((E, "null"),)),
        ((("isnull", E, True),), "None", ()),
    ], key=str)


def c12(ctx, res, with_drops=True, only=None):
    r = ctx.roles
    te = _te(ctx, True)
    curs = cursor_adts(ctx)
    if only is not None:
        # another property borrows the step rules for some of the iterator types only (C06: the copy-out iterators, where an entry
        # yielded twice is an entry dropped twice)
        curs = [(a, e) for (a, e) in curs if a in only]
        res.floor("C12 cursor iterator types that copy entries out", len(curs), 1)
    else:
        res.floor("C12 cursor iterator types", len(curs), 2)
    machines = {}
    for (adt, eps) in curs:
        for (trait, m) in (("std::iter::Iterator", "next"), ("std::iter::DoubleEndedIterator", "next_back")):
            b = r.trait_method(trait, m, adt)
            if b is None:
                res.violate("C12.1:%s:%s:missing" % (adt, m), "`%s` has no `%s`" % (adt, m), None, {}, "C12.1 cursor machine")
                continue
            mc, why = best_cursor_machine(ctx, b, eps, m, res)
            res.count("C12.1 cursor machines")
            if mc is None:
                res.violate("C12.1:%s:%s:unrecognised" % (adt, m), "cannot read `%s::%s` as a two-cursor step: %s" % (adt, m, why),
                            span_str(b.span), {}, "C12.1 cursor machine")
                continue
            machines[(adt, m)] = (mc, b)
        # constructor: which field starts at the LRU end?
    for (adt, eps) in curs:
        if (adt, "next") not in machines or (adt, "next_back") not in machines:
            continue
        (mn, bn), (mb, bb_) = machines[(adt, "next")], machines[(adt, "next_back")]
        front, back = mn["Y"], mb["Y"]
        ok = front != back
        res.oblige("C12.1 `%s`: next and next_back advance different cursors" % adt, ok, key="C12.1:%s:same-cursor" % adt, loc=span_str(bb_.span),
                   rule="C12.1 cursor machine", msg="next and next_back of `%s` both advance `%s`" % (adt, front))
        same_e = mn["E"] == mb["E"] and mn["E"] is not None
        res.oblige("C12.2 `%s`: next and next_back test and clear the same exhaustion cursor" % adt, same_e,
                   key="C12.2:%s:exhaustion-cursor-differs" % adt, loc=span_str(bb_.span), rule="C12.2 exhaustion discipline",
                   msg="`%s`: next treats `%s` as the exhaustion marker, next_back `%s`: after one direction exhausts the iterator the other "
                       "still yields" % (adt, mn["E"], mb["E"]))
        for (m, mc, b, link, what) in (("next", mn, bn, r.L_LRU, "toward the most-recently-used end"),
                                       ("next_back", mb, bb_, r.L_MRU, "toward the least-recently-used end")):
            exp = expected_machine(mc["Y"], mc["O"], mc["E"], link)
            got = mc["paths"]
            # tolerate extra stores that only null cursor fields on the meeting path
            def relax(paths):
                out = []
                for (conds, ret, stores) in paths:
                    st2 = tuple(s for s in stores if not (s[1] == "null" and s[0] != mc["E"] and ("meet", None, True) in conds))
                    out.append((conds, ret, st2))
                return sorted(out, key=str)
            good = relax(got) == exp
            res.oblige("C12.1/2 `%s::%s` is the cursor step: yield the entry at its cursor, then advance %s, or clear the exhaustion cursor when "
                       "the cursors meet; nothing once exhausted" % (adt, m, what), good,
                       detail={"found": [str(p) for p in got], "expected": [str(p) for p in exp]}, key="C12.1:%s:%s:machine" % (adt, m),
                       loc=span_str(b.span), rule="C12.1 cursor machine (mirror/sibling agreement)",
                       msg="`%s::%s` deviates from the two-cursor step shared by its siblings (a cross-check, see DESIGN.md): found %s, expected %s"
                           % (adt, m, [str(p) for p in got], [str(p) for p in exp]))
            res.sample({"method": "%s::%s" % (adt, m), "own_cursor": mc["Y"], "exhaustion_cursor": mc["E"], "paths": [str(p) for p in got]})
        # constructor
        for b in ctx.facts.bodies:
            if b.kind in ("assoc_fn", "fn") and not b.impl_trait and b.j["output"].get("k") == "adt" and b.j["output"].get("name") == adt \
                    and any(r.cache in ty_adts(t_) for t_ in (b.j.get("inputs") or [])):
                # (a constructor is a function that makes the iterator *from a cache*; a helper that only builds the exhausted state
                #  is judged through the constructor that calls it)
                check_cursor_ctor(ctx, res, b, adt, front, back)
    # wrappers delegate direction and project the right component
    if only is None:
        check_wrappers(ctx, res, [a for a, _ in curs])
    # owning iterators: Drop exhausts, then clears without dropping
    if with_drops:
        check_owning_drops(ctx, res, "C12")
    res.assumptions.append("mirror/sibling agreement is a cross-check against the shared two-cursor step, not a proof of all interleavings")


def check_cursor_ctor(ctx, res, b, adt, front, back):
    res.count("C12.2 cursor constructors")
    good, why = _cursor_ctor_probs(ctx, b, front, back)
    if not good:
        b2 = _view(ctx, b)
        if b2 is not b:
            good2, why2 = _cursor_ctor_probs(ctx, b2, front, back)
            if good2:
                good, why = True, []
                res.note("C12.2 constructor `%s` judged with its private helpers inlined" % b.path)
    res.oblige("C12.2 `%s` starts with (seal.LRU-link, seal.MRU-link), or two null cursors iff the cache is empty" % b.path, good, detail=why,
               key="C12.2:%s:constructor" % b.path, loc=span_str(b.span), rule="C12.2 constructor",
               msg="constructor `%s`: %s" % (b.path, "; ".join(why)))


def _cursor_ctor_probs(ctx, b, front, back):
    r = ctx.roles
    te = _te(ctx, True)
    rs = te.all_results(b, max_paths=20)
    good = True
    why = []
    kinds = set()
    for pr in rs:
        ret = pr.ret
        if ret[0] != "agg":
            good = False
            why.append("does not build the iterator directly")
            continue
        f = dict(ret[4])
        fs, bs = show(f.get(front, ("?",))), show(f.get(back, ("?",)))
        if "null_mut" in fs and "null_mut" in bs:
            kinds.add("empty")
            # must be on the path where the cache is empty
            if not any(("len" in show(d) or "is_empty" in show(d) or "Eq" in show(d)) for (d, ch, _b) in pr.conds):
                good = False
                why.append("null cursors without an emptiness test")
        elif fs.endswith(".%s.%s" % (r.SEAL, r.EPTR_RAW) + "." + r.L_LRU) or (("." + r.SEAL + ".") in fs and fs.endswith("." + r.L_LRU)):
            kinds.add("full")
            if not (("." + r.SEAL + ".") in bs and bs.endswith("." + r.L_MRU)):
                good = False
                why.append("back cursor `%s` does not start at the seal's MRU link (%s)" % (back, bs[:80]))
        else:
            good = False
            why.append("front cursor `%s` does not start at the seal's LRU link (%s)" % (front, fs[:80]))
    if kinds != {"empty", "full"}:
        good = False
        why.append("expected an empty and a non-empty construction, found %s" % sorted(kinds))
    return good, why


def _wrapper_probs(ctx, te, bx, b, a):
    """(good, why) of the delegation rule evaluated on body `bx` (the wrapper `b` itself or its inlined view)"""
    rs = te.all_results(bx, max_paths=12)
    good = 1 <= len(rs) <= 4
    why = []
    if not good:
        why.append("%d paths" % len(rs))
    # (1) on every path exactly one step of the wrapped iterator, in the same direction, on a field of self
    for pr in rs:
        steps = [(full, argt) for (_bb, full, argt, _val, _c) in pr.calls
                 if " as std::iter::Iterator>::next" in full or " as std::iter::DoubleEndedIterator>::next_back" in full]
        if len(steps) != 1:
            good = False
            why.append("a path steps the wrapped iterator %d times" % len(steps))
            continue
        full, argt = steps[0]
        called = "next_back" if "::next_back" in full else "next"
        if called != b.name:
            good = False
            why.append("`%s` delegates to the wrapped iterator's `%s`" % (b.name, called))
        a0 = show(argt[0])
        if not a0.startswith("&*p1.") and not a0.startswith("&p1."):
            good = False
            why.append("delegates on `%s`, not on a field of self" % a0[:60])
    # (2) the projected component, where the wrapper has the recognisable shape inner.map(|pair| pair.N); in any other shape
    #     (`?`, match, a named fn) the component is forced by parametricity: the item types K and V are distinct type
    #     parameters, so a value of the item type can only come from the matching component of the wrapped item
    if len(rs) == 1:
        t = rs[0].ret
        proj = None
        recognised = False
        if t[0] == "call" and "Option" in t[1] and "::map" in t[1]:
            clos = t[2][1]
            if clos[0] == "closure":
                cb = ctx.facts.body(clos[1])
                cr = te.all_results(cb, max_paths=4) if cb else []
                if len(cr) == 1:
                    ps = show(cr[0].ret)
                    if ps in ("p2.0", "&p2.0", "*p2.0"):
                        proj, recognised = 0, True
                    elif ps in ("p2.1", "&p2.1", "*p2.1"):
                        proj, recognised = 1, True
        elif t[0] == "call" and (" as std::iter::Iterator>::next" in t[1] or " as std::iter::DoubleEndedIterator>::next_back" in t[1]):
            recognised = True
        out = b.j["output"]
        item = out["args"][0] if out.get("k") == "adt" and out.get("args") else None
        gens = [g["name"] for g in a["generics"] if g["kind"] == "type"]
        want = None
        if item is not None:
            core = item
            while core.get("k") == "ref":
                core = core["ty"]
            if core.get("k") == "param" and len(gens) >= 2:
                want = 0 if core["name"] == gens[0] else (1 if core["name"] == gens[1] else None)
            elif core.get("k") == "tuple":
                want = "pair"
        if recognised:
            if want == "pair" and proj is not None:
                good = False
                why.append("item is the pair but a component is projected")
            elif want in (0, 1) and proj != want:
                good = False
                why.append("item type is the %s but component .%s is projected" % ("key" if want == 0 else "value", proj))
    return good, why


def check_wrappers(ctx, res, cursor_names):
    """Keys/Values/IntoKeys/IntoValues/Drain/IntoIter: each direction delegates to the same direction of the wrapped iterator
    and projects the component named by the item type"""
    r = ctx.roles
    te = _te(ctx, False)
    n = 0
    for b in ctx.facts.bodies:
        if b.kind != "assoc_fn" or b.name not in ("next", "next_back") or not b.impl_self or not b.impl_self.get("local"):
            continue
        if b.impl_trait not in ("std::iter::Iterator", "std::iter::DoubleEndedIterator"):
            continue
        adt = b.impl_self.get("name")
        if adt in cursor_names or not b.file.endswith(ctx.facts.body(r.method("iter").path).file if r.method("iter") else ""):
            pass
        if adt in cursor_names:
            continue
        a = ctx.facts.adts.get(adt)
        if a is None or not any(x in ty_adts(f["ty"]) for f in a["variants"][0]["fields"] for x in set(cursor_names) | set(holders_of(ctx, cursor_names))):
            continue
        n += 1
        res.count("C12.2 wrapper methods")
        good, why = _wrapper_probs(ctx, te, b, b, a)
        if not (good and not why):
            # both directions may share a private helper that takes a direction flag: judge the wrapper with its helpers inlined
            IT = ("std::iter::Iterator", "std::iter::DoubleEndedIterator")
            try:
                from ..inline import derive
                prims = _named_primitives(ctx)
                b2, inl = derive(ctx, b, lambda tg: tg.path not in prims and not tg.is_closure and tg.impl_trait not in IT, depth=2)
            except Exception:
                b2, inl = b, []
            if inl:
                good2, why2 = _wrapper_probs(ctx, te, b2, b, a)
                if good2 and not why2:
                    good, why = True, []
                    res.note("C12.2 `%s` judged with %s inlined" % (b.path, ", ".join(x.split("::")[-1] for x in inl)))
        res.oblige("C12.2 `%s` delegates `%s` to the same direction of the wrapped iterator and yields the right component" % (b.path, b.name),
                   good and not why, detail=why, key="C12.2:%s:delegation" % b.path, loc=span_str(b.span), rule="C12.2 wrapper delegation",
                   msg="`%s`: %s" % (b.path, "; ".join(why)))
    res.floor("C12.2 wrapper methods", n, 12)


def _drop_discipline_probs(ctx, db):
    cg = ctx.cg
    g = cfg_of(db)
    calls = cg.calls.get(db.path, [])
    nexts = [c for c in calls if (c.trait in ("std::iter::Iterator", "std::iter::DoubleEndedIterator")) and c.name in ("next", "next_back")]
    clears = [c for c in calls if c.model and c.model.get("table") == "clear" and norm(c.resolved or c.nominal).endswith("clear_no_drop")]
    loops = g.loops()
    why = []
    loop_h = None
    for h, blocks in loops.items():
        if any(c.bb in blocks for c in nexts):
            loop_h = h
            loop_blocks = blocks
    if loop_h is None:
        why.append("no loop that runs the iterator to exhaustion")
    if not clears:
        why.append("no clear_no_drop of the table whose entries were moved out")
    if loop_h is not None and clears:
        rets = g.return_blocks()
        for c in clears:
            if c.bb in loop_blocks:
                why.append("clear_no_drop inside the exhaustion loop")
            if not g.dominates(loop_h, c.bb):
                why.append("clear_no_drop can be reached without passing the exhaustion loop")
        if not g.all_paths_pass(0, rets, [c.bb for c in clears]):
            why.append("a path returns without clear_no_drop (the moved-out entries would be dropped again with the table)")
        if not g.all_paths_pass(0, [c.bb for c in clears], [loop_h]):
            why.append("a path reaches clear_no_drop without running the exhaustion loop (unconsumed entries leak)")
        # a table that is handed (back) to the cache must already have been emptied: every swap/replace of a table is dominated by the clear
        swaps = ctx.eff.direct[db.path]["swap_table"]
        for sc in swaps:
            if not any(g.dominates(c.bb, sc.bb) for c in clears):
                why.append("the table is handed to the cache before it was marked empty (a panic while dropping the remaining entries leaves the "
                           "cache owning moved-out entries)")
            if loop_h is not None and not g.dominates(loop_h, sc.bb):
                why.append("the table is handed to the cache before the remaining entries were taken out")
        # the loop must be left only through the None edge of next(): the loop exit edge leaves from the switch on the call's result
        for c in nexts:
            if c.bb in loop_blocks:
                pass
    return why


def check_owning_drops(ctx, res, prop):
    """Drop of every holder of a copy-out iterator: on every path first run the iterator to exhaustion, then mark the table that
    holds the (now moved-out) entries empty without dropping; nothing else may precede the exhaustion"""
    r = ctx.roles
    cg = ctx.cg
    co = copy_out_adts(ctx)
    hs = holders_of(ctx, co)
    n = 0
    for adt in hs:
        db = r.trait_method("std::ops::Drop", "drop", adt)
        a = ctx.facts.adts[adt]
        direct = any(f["ty"].get("k") == "adt" and f["ty"]["name"] in co for f in a["variants"][0]["fields"])
        if db is None:
            if direct:
                res.violate("%s.3:%s:no-drop" % (prop, adt), "`%s` holds a copy-out iterator but has no Drop impl: unconsumed entries leak and "
                            "consumed ones stay registered in the table" % adt, span_str(a["span"]), {}, "%s.3 owning-iterator drop" % prop)
            continue
        n += 1
        res.count("%s.3 owning iterator drops" % prop)
        why = _drop_discipline_probs(ctx, db)
        if not why:
            # the raw body shows only the swaps it performs itself: a table handed back to the cache by a private helper (before the
            # remaining entries were taken out / before it was marked empty) is visible in the view with the helpers inlined
            from ..inline import derive
            prims = _named_primitives(ctx)
            IT = ("std::iter::Iterator", "std::iter::DoubleEndedIterator")
            db2, inl = derive(ctx, db, lambda tg: tg.path not in prims and not tg.is_closure and tg.impl_trait not in IT, depth=2)
            if inl:
                why = [w for w in _drop_discipline_probs(ctx, db2) if "handed to the cache" in w]
                if why:
                    res.note("%s.3 `Drop for %s`: table hand-back judged with %s inlined" % (prop, adt, ", ".join(x.split("::")[-1] for x in inl)))
        elif why:
            # the exhausting loop may live in a private helper: judge Drop with its helpers (but not the iterator steps) inlined
            from ..inline import derive
            prims = _named_primitives(ctx)
            IT = ("std::iter::Iterator", "std::iter::DoubleEndedIterator")
            db2, inl = derive(ctx, db, lambda tg: tg.path not in prims and not tg.is_closure and tg.impl_trait not in IT, depth=2)
            if inl:
                why2 = _drop_discipline_probs(ctx, db2)
                if not why2:
                    res.note("%s.3 `Drop for %s` judged with %s inlined" % (prop, adt, ", ".join(x.split("::")[-1] for x in inl)))
                    why = []
        res.oblige("%s.3 `Drop for %s` exhausts the iterator on every path, then marks the table empty without dropping" % (prop, adt), not why,
                   detail=why, key="%s.3:%s:drop-discipline" % (prop, adt), loc=span_str(db.span), rule="%s.3 owning-iterator drop" % prop,
                   msg="`Drop for %s`: %s" % (adt, "; ".join(why)))
    res.floor("%s.3 owning iterator drops" % prop, n, 2)


# =====================================================================================================================
#  buckets never move under the list (C07 / C04 "across every reallocation" / C13 transparency)
# =====================================================================================================================
def no_bucket_relocation(ctx, res, prop):
    """The list is intrusive: its links are raw pointers into the table's buckets.  hashbrown's growing primitives (insert, reserve,
    try_reserve, shrink_to, insert_entry) may move every element to another bucket, in place or into a new allocation, without
    telling anybody.  A table of entries may therefore only be operated through the no-grow primitives; relocation is the
    crate's own business (allocate a new table, re-insert, relink).  Expected number of sites: 0; the scan itself is counted."""
    r, cg = ctx.roles, ctx.cg
    n = 0
    for b in ctx.facts.bodies:
        if b.file.endswith("mem_size.rs"):
            continue
        n += 1
        for c in cg.calls.get(b.path, []):
            if not (c.model and c.model.get("table") == "insert_grow"):
                continue
            if not any(r.entry in ty_adts(a_) for a_ in (c.fn.get("args") or [])):
                continue        # a RawTable of something else
            res.violate("%s:%s:relocating-table-primitive:%s" % (prop, b.path, norm(c.resolved or c.nominal).split("::")[-1]),
                        "`%s` calls `%s` on a table of entries: hashbrown may move the entries to other buckets (in place or into a new "
                        "allocation) while the links of the intrusive list keep pointing at the old ones"
                        % (b.path, norm(c.resolved or c.nominal)), c.loc, {}, "%s no bucket relocation behind the list's back" % prop)
    res.count("%s bodies scanned for relocating table primitives" % prop, n)
    res.floor("%s bodies scanned for relocating table primitives" % prop, n, 100)
    res.oblige("%s no growing hashbrown primitive (insert / reserve / try_reserve / shrink_to / insert_entry) is called on a table of entries"
               % prop, True, key="%s:no-relocating-primitive" % prop)


# =====================================================================================================================
#  C15: retain
# =====================================================================================================================
def c15(ctx, res):
    r = ctx.roles
    b = r.method("retain")
    if b is None or b.vis != "pub":
        res.violate("C15:anchor-missing:retain", "pub fn retain not found", None, {}, "anchors")
        return
    # the loop body may have been extracted into a private helper that receives the predicate: judge retain with such helpers inlined
    if not any(c.user_kind == "closure" for c in ctx.cg.calls.get(b.path, [])):
        from ..inline import derive

        def calls_predicate(tg):
            return any(c.user_kind == "closure" for (_p, c) in ctx.eff.trans(tg, include_drops=False)["user"])
        b2, inl = derive(ctx, b, calls_predicate, depth=2)
        if inl:
            res.note("C15: retain judged with %s inlined" % ", ".join(x.split("::")[-1] for x in inl))
            b = b2
    te = _te(ctx, True)
    try:
        paths = te.paths(b, max_visits=2, max_paths=200)
    except TooComplex as e:
        res.violate("C15:too-complex", str(e), span_str(b.span), {}, "C15")
        return
    seal = "*p1.%s" % r.SEAL
    sealp = "p1.%s.%s" % (r.SEAL, r.EPTR_RAW)
    cur0 = "**%s.%s" % (sealp, r.L_LRU)                       # the handle stored in the seal's LRU link
    ent0 = "***%s.%s.%s" % (sealp, r.L_LRU, r.EPTR_RAW)       # the entry it points to
    key0 = "std::mem::MaybeUninit::<K>::assume_init_ref(&%s.%s)" % (ent0, r.E_KEY)
    val0 = "std::mem::MaybeUninit::<V>::assume_init_ref(&%s.%s)" % (ent0, r.E_VAL)
    cur1 = "%s.%s" % (ent0, r.L_LRU)
    loc = span_str(b.span)
    n_iter = 0
    probs = []
    kinds = set()
    for p in paths:
        pr = te.eval_path(b, p)
        if getattr(pr, "infeasible", False):
            continue        # (a test on a value the path itself has just constructed: `while let Some(..) = <inlined helper>`)
        conds = [(show(d), ch) for (d, ch, _bb) in pr.conds]
        if not conds:
            probs.append("a path has no loop test at all")
            continue
        # first test: cursor0 != seal
        d0, ch0 = conds[0]
        is_ne = "PartialEq>::ne(" in d0 or " Ne " in d0
        is_eq = ("PartialEq>::eq(" in d0 or " Eq " in d0) and not is_ne
        if d0.startswith("!"):
            is_ne, is_eq = is_eq, is_ne          # `!(a == b)` tests what `a != b` tests
        if not ((is_ne or is_eq) and (cur0 in d0) and (seal in d0)):
            probs.append("the loop is not controlled by comparing the handle read from the seal's LRU link with the seal: `%s`" % d0[:160])
            continue
        entered = (ch0 != 0) if is_ne else (ch0 == 0)
        user = [(x[1], [show(a) for a in x[2]], x[4]) for x in pr.calls if x[4] is not None and x[4].user_kind == "closure"]
        removes = [(x[1], [show(a) for a in x[2]], x[4]) for x in pr.calls
                   if x[4] is not None and x[4].target is not None and any(cls == "remove" for (_p, (cls, _c)) in ctx.eff.trans(x[4].target)["table"])]
        splice_paths = set(x.path for x in list_primitives(ctx)[0])
        # relinking = reaching the splice-in primitive (unlinking a removed entry from its neighbours is part of the removal)
        promos = [x for x in pr.calls if x[4] is not None and x[4].target is not None and
                  any(pp in splice_paths for pp in ctx.cg.reach(x[4].target))]
        if not entered:
            kinds.add("skip")
            if user or removes:
                probs.append("predicate or removal executed although the traversal is at the seal")
            continue
        n_iter += 1
        # (2) exactly one predicate call, on the visited entry's own key and value
        if len(user) != 1:
            probs.append("the predicate is called %d times for one entry" % len(user))
            continue
        args = user[0][1]
        tup = args[1] if len(args) > 1 else ""
        if not (key0 in tup and val0 in tup and tup.index(key0) < tup.index(val0)):
            probs.append("the predicate does not receive the visited entry's key and value: %s" % tup[:200])
        # which way did the predicate go on this path?
        pc = [(d, ch) for (d, ch) in conds if "call_mut" in d or "FnMut" in d or "as std::ops::Fn" in d]
        if len(pc) != 1:
            probs.append("the predicate's result is tested %d times" % len(pc))
            continue
        verdict = pc[0][1] != 0      # True = keep
        neg = pc[0][0].startswith("!")
        if neg:
            verdict = not verdict
        kinds.add("keep" if verdict else "reject")
        # (3) removal iff rejected, by the visited entry's key
        if verdict and removes:
            probs.append("an entry the predicate wants to keep is removed")
        if (not verdict) and len(removes) != 1:
            probs.append("a rejected entry is removed %d times" % len(removes))
        if (not verdict) and removes:
            ra = removes[0][1]
            # (by the visited entry's own key, or through the very handle that designates the visited entry)
            if not any(key0 in a or a == cur0 for a in ra[1:]):
                probs.append("the removal does not use the visited entry's own key: %s" % [a[:120] for a in ra])
        if promos:
            probs.append("retain relinks an entry (%s): survivors must keep their place" % promos[0][1])
        # (4) next cursor: the visited entry's LRU-side link
        later = [d for (d, ch) in conds[1:] if ("PartialEq>::ne(" in d or "PartialEq>::eq(" in d or " Eq " in d or " Ne " in d) and seal in d]
        if not later:
            probs.append("no second loop test after visiting an entry")
        else:
            d1 = later[-1]
            if cur1 not in d1:
                probs.append("after visiting an entry the traversal does not continue with that entry's LRU-side link: `%s`" % d1[:200])
    res.count("C15 retain iteration paths", n_iter)
    for k in ("skip", "keep", "reject"):
        if k not in kinds:
            probs.append("no path of kind '%s' found" % k)
    uniq = sorted(set(probs))
    res.oblige("C15 retain: start at the seal's LRU link, stop at the seal, one predicate call per entry on its own key/value, remove iff rejected "
               "by that entry's key, continue with the visited entry's LRU-side link, survivors untouched", not uniq, detail=uniq,
               key="C15:retain-shape", loc=loc, rule="C15 retain traversal",
               msg="retain: %s" % "; ".join(uniq))
    res.sample({"iteration_paths": n_iter, "kinds": sorted(kinds), "cursor": cur0, "next_cursor": cur1})
    res.assumptions.append("exactly-once and LRU-to-MRU order follow from these clauses together with the list-shape invariant (C07, not decided)")


# =====================================================================================================================
#  C17: no safety debt in Drop
# =====================================================================================================================
def c17(ctx, res):
    r = ctx.roles
    te = _te(ctx, True)
    co = copy_out_adts(ctx)
    res.floor("C17 copy-out iterator types", len(co), 1)
    hs = holders_of(ctx, co)
    res.analysed["copy_out_iterators"] = co
    res.analysed["holders"] = sorted(hs)
    for adt in sorted(hs):
        a = ctx.facts.adts[adt]
        fields = a["variants"][0]["fields"]
        by_val = [f for f in fields if r.cache in ty_adts(f["ty"]) and f["ty"].get("k") != "ref" and not _behind_ref(f["ty"], r.cache)]
        by_mut = [f for f in fields if f["ty"].get("k") == "ref" and f["ty"].get("mut") and r.is_cache_ty(f["ty"]["ty"])]
        by_shared = [f for f in fields if f["ty"].get("k") == "ref" and not f["ty"].get("mut") and r.is_cache_ty(f["ty"]["ty"])]
        inner = [f for f in fields if f["ty"].get("k") == "adt" and f["ty"]["name"] in hs]
        res.count("C17 holders of copy-out iterators")
        if by_shared:
            res.violate("C17:%s:shared-cache" % adt, "`%s` copies entries out bitwise while holding only `&` to the cache" % adt, span_str(a["span"]), {},
                        "C17 no safety debt in Drop")
            continue
        if by_val or (inner and not by_mut):
            res.oblige("C17 `%s` owns the cache by value: forgetting it forgets the cache, no destructor can see moved-out entries" % adt, True,
                       key="C17:%s:owns-by-value" % adt)
            continue
        if not by_mut:
            res.violate("C17:%s:no-cache" % adt, "`%s` holds a copy-out iterator but no cache: cannot judge who owns the entries" % adt,
                        span_str(a["span"]), {}, "C17 no safety debt in Drop")
            continue
        # &mut holder: every constructor must leave the cache detached and empty *before* the reference is stored
        ctors = [b for b in ctx.facts.bodies if b.kind in ("assoc_fn", "fn") and b.j["output"].get("k") == "adt" and b.j["output"].get("name") == adt
                 and any(st_["k"] == "assign" and st_["rv"]["k"] == "aggregate" and st_["rv"].get("name") == adt
                         for bl in b.blocks for st_ in bl["stmts"])]
        if not ctors:
            res.violate("C17:%s:no-constructor" % adt, "no constructor of `%s` found" % adt, span_str(a["span"]), {}, "C17 no safety debt in Drop")
        for b in ctors:
            res.count("C17 constructors of &mut holders")
            probs = []
            try:
                rs = _te_stores(ctx).all_results(b, max_paths=30)       # (helpers that reset the seal / the size are inlined with their stores)
            except TooComplex as e:
                rs = []
                probs.append(str(e))
            # which parameter is the cache?
            cp = None
            for i, t in enumerate(b.j["inputs"]):
                if t.get("k") == "ref" and t.get("mut") and r.is_cache_ty(t["ty"]):
                    cp = i + 1
            if cp is None:
                probs.append("constructor does not take `&mut` cache")
            for pr in rs:
                stores = [(show(p), show(v)) for (p, v, _bb) in pr.stores]
                sealv = "*p%d.%s" % (cp, r.SEAL)
                need = {"*%s.%s.%s" % (sealv.lstrip("*") if False else "*p%d.%s" % (cp, r.SEAL), r.EPTR_RAW, l): sealv for l in r.links}
                for l in r.links:
                    tgt = "**p%d.%s.%s.%s" % (cp, r.SEAL, r.EPTR_RAW, l)
                    if (tgt, sealv) not in stores:
                        probs.append("seal link `%s` is not reset to the seal before the iterator is handed out" % l)
                if ("*p%d.%s" % (cp, r.CS), "0") not in stores:
                    probs.append("current_size is not reset to 0 before the iterator is handed out")
                swaps = [x for x in pr.calls if x[4] is not None and x[4].external and
                         norm(x[4].resolved or x[4].nominal) in ("std::mem::take", "std::mem::replace", "std::mem::swap")
                         and any(("p%d.%s" % (cp, r.TABLE)) in show(a_) for a_ in x[2])]
                if not swaps:
                    probs.append("the table that holds the entries is not detached from the cache (mem::take/replace/swap of the table)")
            uniq = sorted(set(probs))
            res.oblige("C17 constructor `%s` leaves the cache empty, detached and with a reset list before handing out the iterator "
                       "(Drop owes nothing for soundness)" % b.path, not uniq, detail=uniq, key="C17:%s:constructor-detaches" % b.path,
                       loc=span_str(b.span), rule="C17 no safety debt in Drop",
                       msg="`%s` hands out a copy-out iterator holding `&mut` cache but %s: if the iterator is leaked (mem::forget) the cache keeps "
                           "entries that were moved out" % (b.path, "; ".join(uniq)))
        # ... and between construction and Drop the iterator must leave the cache alone: a step method (next, next_back, size_hint,
        # ...) that stores into a cache field or rewrites a link of a list node through a pointer re-attaches moved-out entries to
        # the still live cache (the nodes next to the first/last drained entry are the cache's own seal)
        for b in ctx.facts.bodies:
            if not (b.impl_self and b.impl_self.get("name") == adt) or b.is_closure or b in ctors:
                continue
            if b.impl_trait == "std::ops::Drop":
                continue
            res.count("C17 step methods of &mut holders")
            tr = ctx.eff.trans(b)
            probs = []
            for (p_, (f_, _bb, _si, via)) in tr["w_entry"]:
                if via and f_ in r.links:
                    probs.append("`%s` stores the link `%s` of a list node through a pointer" % (p_, f_))
            for (p_, (f_, _bb, _si, via)) in tr["w_cache"]:
                probs.append("`%s` writes the cache field `%s`" % (p_, f_))
            uniq = sorted(set(probs))
            res.oblige("C17 `%s` (a step of a draining iterator that borrows the cache) touches neither the cache nor the links of list "
                       "nodes" % b.path, not uniq, detail=uniq, key="C17:%s:step-leaves-cache-alone" % b.path, loc=span_str(b.span),
                       rule="C17 no safety debt in Drop",
                       msg="`%s` runs while the cache is borrowed by a draining iterator and %s: if the iterator is then leaked the cache is "
                           "attached to entries the iterator owns" % (b.path, "; ".join(uniq)))
    # borrowing iterators: no Drop impl
    cn = [a for a, _ in cursor_adts(ctx) if a not in co]
    for adt in cn + sorted(holders_of(ctx, cn)):
        if adt in hs or adt in co:
            continue
        db = r.trait_method("std::ops::Drop", "drop", adt)
        res.count("C17 borrowing iterators")
        res.oblige("C17 borrowing iterator `%s` has no Drop impl (forgetting it is a no-op)" % adt, db is None, key="C17:%s:borrowing-has-drop" % adt,
                   rule="C17 no safety debt in Drop", msg="borrowing iterator `%s` has a Drop impl: leaking it skips that code" % adt)


def _behind_ref(ty, name, depth=0):
    if depth > 6 or not isinstance(ty, dict):
        return False
    if ty.get("k") in ("ref", "ptr"):
        return name in ty_adts(ty)
    return any(_behind_ref(a, name, depth + 1) for a in ty.get("args", []) or [])


# =====================================================================================================================
#  C06: every key and value dropped or handed back exactly once
# =====================================================================================================================
def _variant_payload_has_entry(r, ty, idx):
    """for Option/Result/ControlFlow typed locals: does variant idx carry an Entry by value?"""
    if ty.get("k") != "adt":
        return True
    n = ty["name"]
    args = [a for a in ty.get("args", []) if a.get("k") not in ("region", "const")]
    if n == "std::option::Option":
        return idx == 1 and r.contains_entry_by_value(args[0])
    if n == "std::result::Result":
        if idx < len(args):
            return r.contains_entry_by_value(args[idx])
        return False
    if n == "std::ops::ControlFlow":
        # ControlFlow<B, C>: Continue(C) is variant 0, Break(B) is variant 1
        if idx in (0, 1) and len(args) == 2:
            return r.contains_entry_by_value(args[1 - idx])
        return False
    return True


def _variant_count(ty):
    if ty.get("k") == "adt" and ty["name"] in ("std::option::Option", "std::result::Result", "std::ops::ControlFlow"):
        return 2
    return None


def _byref_sinks(ctx):
    """methods of the entry type that take `&mut self` and end the ownership of both slots in place (drop / read them out): applying
    one to a by-value entry is a sink for that entry just as moving it into a by-value sink is"""
    if hasattr(ctx, "_byref_sinks_"):
        return ctx._byref_sinks_
    r = ctx.roles
    out = set()
    for b in ctx.facts.bodies:
        ins = b.j.get("inputs") or []
        if not (b.kind == "assoc_fn" and ins and ins[0].get("k") == "ref" and ins[0].get("mut") and r.is_entry_ty(ins[0].get("ty"))
                and b.impl_self and b.impl_self.get("name") == r.entry):
            continue
        prims = [norm(c.resolved or c.nominal) for c in ctx.eff.direct[b.path]["own_prim"]]
        if sum(1 for n in prims if n in ("std::ptr::drop_in_place", "std::mem::MaybeUninit::assume_init_drop",
                                         "std::mem::MaybeUninit::assume_init_read", "std::ptr::read")
               or _norm_copy_out(n + "(").startswith("READ(")) >= 2:
            out.add(b.path)
    ctx._byref_sinks_ = out
    return out


def entry_linearity(ctx, b):
    """forward may-hold dataflow for by-value Entry values; returns list of (local, bb, what) leaks"""
    r = ctx.roles
    g = cfg_of(b)
    elocals = set(i for i, l in enumerate(b.locals) if r.contains_entry_by_value(l["ty"]))
    if not elocals:
        return [], 0
    ent_short = r.entry.split("::")[-1]

    def moves_entry(op):
        if op.get("k") != "move":
            return None
        pl = op["place"]
        if pl["l"] not in elocals:
            return None
        ty = pl["ty"]
        if ty.startswith("&") or ty.startswith("*"):
            return None
        if (r.entry + "<") in ty or ty.startswith(ent_short + "<") or (ent_short + "<") in ty:
            # moving a field that is not an Entry (e.g. a key out of an entry) is handled by the sink rule
            if any(e["k"] == "field" and e.get("of") == r.entry for e in pl["p"]):
                return None
            return pl["l"]
        return None

    def rv_ops(rv):
        out = []
        for key in ("op", "a", "b"):
            o = rv.get(key)
            if isinstance(o, dict) and "k" in o:
                out.append(o)
        out += rv.get("ops", []) or []
        return out

    # a body of the entry type that takes `self` by value and takes its slots apart is a sink: its parameter is judged by
    # the slot rule (C06.2), not by linearity
    is_sink = (b.kind == "assoc_fn" and b.impl_self and b.impl_self.get("name") == r.entry and (b.j.get("inputs") or [{}])[0].get("name") == r.entry
               and r.is_entry_ty((b.j.get("inputs") or [{}])[0]))
    # blocks from which a return is reachable along normal edges (the others only lead to diverging calls)
    can_return = set()
    for rb in g.return_blocks():
        can_return.add(rb)
    changed_ = True
    while changed_:
        changed_ = False
        for bi_ in range(len(b.blocks)):
            if bi_ not in can_return and any(s_ in can_return for s_ in g.nsucc[bi_]):
                can_return.add(bi_)
                changed_ = True
    inn = {0: frozenset(i for i in elocals if 1 <= i <= b.arg_count and not (is_sink and i == 1))}
    work = [0]
    leaks = []
    seen_leak = set()
    steps = 0
    while work:
        bb = work.pop()
        steps += 1
        if steps > 5000:
            break
        H = set(inn[bb])
        bl = b.blocks[bb]
        for si, st in enumerate(bl["stmts"]):
            if st["k"] == "assign":
                for o in rv_ops(st["rv"]):
                    m = moves_entry(o)
                    if m is not None:
                        H.discard(m)
                root = st["place"]["l"]
                if root in elocals and not any(e["k"] == "deref" for e in st["place"]["p"]):
                    # receives an entry-carrying value?
                    carries = False
                    rv = st["rv"]
                    if rv["k"] == "use" and rv["op"].get("k") == "move" and moves_entry(rv["op"]) is not None:
                        carries = True
                    if rv["k"] == "use" and rv["op"].get("k") == "move" and rv["op"]["place"]["l"] in elocals and \
                            any(e["k"] == "downcast" for e in rv["op"]["place"]["p"]):
                        carries = True
                    if rv["k"] == "aggregate" and any(moves_entry(o) is not None or (o.get("k") == "move" and o["place"]["l"] in elocals)
                                                     for o in rv.get("ops", [])):
                        carries = True
                    if rv["k"] == "aggregate" and rv.get("name") == r.entry:
                        carries = True
                    if carries:
                        H.add(root)
            elif st["k"] == "dead":
                if st["l"] in H and bb not in can_return:
                    H.discard(st["l"])      # on the way to a diverging call (unreachable!/panic): not a normal path, leaks are allowed there
                elif st["l"] in H:
                    key = (st["l"], bb)
                    if key not in seen_leak:
                        seen_leak.add(key)
                        leaks.append((st["l"], bb, "goes out of scope"))
                    H.discard(st["l"])
        t = bl["term"]
        k = t["k"]
        outs = []
        if k == "call":
            for a in t["args"]:
                m = moves_entry(a)
                if m is not None:
                    H.discard(m)
                elif a.get("k") == "move" and a["place"]["l"] in elocals and not a["place"]["p"]:
                    H.discard(a["place"]["l"])
            # `entry.drop_in_place_like(&mut self)`: a by-reference sink applied to a held entry consumes it
            cobj = next((c_ for c_ in ctx.cg.calls.get(b.path, []) if c_.bb == bb), None)
            if cobj is not None and cobj.target is not None and cobj.target.path in _byref_sinks(ctx) and t["args"]:
                a0 = t["args"][0]
                if a0.get("k") in ("move", "copy") and not a0["place"]["p"]:
                    tmp = a0["place"]["l"]
                    for bl2 in b.blocks:
                        for st2 in bl2["stmts"]:
                            if st2["k"] == "assign" and st2["place"]["l"] == tmp and not st2["place"]["p"] and st2["rv"]["k"] in ("ref", "rawptr") \
                                    and st2["rv"]["place"]["l"] in elocals and not st2["rv"]["place"]["p"]:
                                H.discard(st2["rv"]["place"]["l"])
            if t.get("target") is not None:
                H2 = set(H)
                d = t["dest"]
                if d["l"] in elocals and not d["p"]:
                    H2.add(d["l"])
                outs.append((t["target"], H2))
        elif k == "switch":
            dl = t["discr"].get("place", {}).get("l") if t["discr"].get("k") in ("copy", "move") else None
            src = None
            for st in bl["stmts"]:
                if st["k"] == "assign" and st["place"]["l"] == dl and st["rv"]["k"] == "discr":
                    src = st["rv"]["place"]
            for (val, tb) in t["targets"]:
                H2 = set(H)
                if src is not None and src["l"] in elocals and not src["p"]:
                    if not _variant_payload_has_entry(r, b.local_ty(src["l"]), val):
                        H2.discard(src["l"])
                outs.append((tb, H2))
            Ho = set(H)
            if src is not None and src["l"] in elocals and not src["p"]:
                # the otherwise edge stands for the variants not listed: if none of them carries an entry, nothing is held there
                nv = _variant_count(b.local_ty(src["l"]))
                listed = set(v for (v, _tb) in t["targets"])
                if nv is not None and not any(_variant_payload_has_entry(r, b.local_ty(src["l"]), i) for i in range(nv) if i not in listed):
                    Ho.discard(src["l"])
            outs.append((t["otherwise"], Ho))
        elif k == "return":
            for x in H:
                if x != 0:
                    key = (x, bb)
                    if key not in seen_leak:
                        seen_leak.add(key)
                        leaks.append((x, bb, "is still held when the function returns"))
        else:
            from ..cfg import term_succs
            for (s2, kind) in term_succs(t, unwind=False):
                outs.append((s2, set(H)))
        for (s2, H2) in outs:
            old = inn.get(s2)
            new = frozenset(H2) | (old or frozenset())
            if old is None or new != old:
                inn[s2] = new
                if s2 not in work:
                    work.append(s2)
    return leaks, len(elocals)


def _teardown_probs(ctx, b, what, sinks):
    r, cg, eff = ctx.roles, ctx.cg, ctx.eff
    g = cfg_of(b)
    d = eff.direct[b.path]
    drains = [c for (cls, c) in d["table"] if cls in ("drain", "into_iter")]
    nexts = [c for (cls, c) in d["table"] if cls == "iter_next"]
    sinkc = [c for c in cg.calls.get(b.path, []) if c.target is not None and c.target in sinks]
    probs = []
    if not drains or not nexts:
        probs.append("does not iterate a drain of the table")
    if not sinkc:
        probs.append("yielded entries are not handed to a sink")
    loops = g.loops()
    if drains and nexts and sinkc:
        lh = [h for h, blocks in loops.items() if nexts[0].bb in blocks and sinkc[0].bb in blocks]
        if not lh:
            probs.append("the sink is not applied inside the drain loop")
        elif not g.all_paths_pass(0, g.return_blocks(), lh):
            probs.append("a path returns without draining")
    frees = d["free"] + [c for c in cg.calls.get(b.path, []) if c.target is not None and eff.direct[c.target.path]["free"]]
    if what.startswith("Drop"):
        if len(frees) != 1:
            probs.append("the seal is freed %d times" % len(frees))
        elif drains and nexts:
            lh2 = [h for h, blocks in loops.items() if nexts[0].bb in blocks]
            if lh2 and not g.dominates(lh2[0], frees[0].bb):
                probs.append("the seal is freed before the table was drained")
    elif frees:
        probs.append("clear frees the seal")
    return probs


def _named_primitives(ctx):
    """bodies that rules look for by role and that therefore are never inlined away"""
    if hasattr(ctx, "_named_prims"):
        return ctx._named_prims
    r, eff = ctx.roles, ctx.eff
    out = set()
    ins, outs = list_primitives(ctx)
    out |= set(x.path for x in ins) | set(x.path for x in outs)
    out |= set(x.path for x in hash_functions(ctx))
    for b in ctx.facts.bodies:
        d = eff.direct.get(b.path)
        if d is None:
            continue
        if d["copy_out"] or d["free"]:
            out.add(b.path)
        ins_ = b.j.get("inputs") or []
        if ins_ and r.is_entry_ty(ins_[0]) and b.impl_self and b.impl_self.get("name") == r.entry:
            out.add(b.path)      # sinks / by-value entry methods
        if b.impl_self and b.impl_self.get("name") in (r.entry, r.eptr):
            out.add(b.path)      # the node / handle API
    ctx._named_prims = out
    return out


def derive_inlined(ctx, b, depth=2):
    from ..inline import derive
    prims = _named_primitives(ctx)
    return derive(ctx, b, lambda tg: tg.path not in prims and not tg.is_closure, depth=depth)


def c06(ctx, res):
    r, cg, eff = ctx.roles, ctx.cg, ctx.eff
    te = _te(ctx, True)
    # ---- 1. linearity of by-value entries
    nloc = 0
    nb = 0
    for b in ctx.facts.bodies:
        if b.file.endswith("mem_size.rs"):
            continue
        leaks, n = entry_linearity(ctx, b)
        if n:
            nb += 1
            nloc += n
        for (l, bb, what) in leaks:
            nm = b.local_name(l) or ("_%d" % l)
            res.violate("C06.1:%s:leaks:%s" % (b.path, nm),
                        "in `%s` the entry value `%s` (%s) %s on some path without having been moved into a sink (dropped, returned, "
                        "re-inserted or handed on): its key and value would never be dropped" % (b.path, nm, b.local_ty(l)["s"], what),
                        b.loc(bb), {"local": l, "bb": bb}, "C06.1 linearity of extracted entries")
    res.count("C06.1 entry-carrying locals", nloc)
    res.floor("C06.1 bodies with by-value entries", nb, 12)
    res.oblige("C06.1 every by-value entry is moved into a sink on every normal path (%d locals in %d bodies)" % (nloc, nb),
               not any(v.key.startswith("C06.1:") for v in res.violations), key="C06.1:summary")
    # ---- 2. sinks consume both slots exactly once
    sinks = []
    for b in ctx.facts.bodies:
        ins = b.j.get("inputs") or []
        if b.kind == "assoc_fn" and ins and r.is_entry_ty(ins[0]) and b.impl_self and b.impl_self.get("name") == r.entry:
            sinks.append(b)
    byref = [ctx.facts.body(p_) for p_ in sorted(_byref_sinks(ctx))]
    byref_paths = set(_byref_sinks(ctx))
    res.floor("C06.2 sink bodies (take Entry by value)", len(sinks) + len(byref), 3)
    for b in sinks + byref:
        res.count("C06.2 sinks")
        probs = []
        for p in te.paths(b, max_paths=20):
            pr = te.eval_path(b, p)
            for slot in (r.E_KEY, r.E_VAL):
                n = 0
                for (bb, full, argt, val, c) in pr.calls:
                    nn = norm(full)
                    a0 = show(argt[0]) if argt else ""
                    if nn == "std::mem::MaybeUninit::assume_init" and a0 == "p1.%s" % slot:
                        n += 1
                    if nn == "std::ptr::drop_in_place" and ("p1.%s" % slot) in a0:
                        n += 1
                    if nn in ("std::mem::MaybeUninit::assume_init_drop", "std::mem::MaybeUninit::assume_init_read") and ("p1.%s" % slot) in a0:
                        n += 1
                    # the slot read out bitwise through its address (`slot.as_ptr().read()`)
                    if _norm_copy_out(nn + "(").startswith("READ(") and a0.startswith("std::mem::MaybeUninit::") and \
                            ("assume_init_ref(" in a0 or "assume_init_mut(" in a0) and ("p1.%s)" % slot) in a0:
                        n += 1
                    # the whole entry handed to a `&mut self` sink of the entry type (judged as a sink of its own): both slots end there
                    if c is not None and c.target is not None and c.target.path in byref_paths and a0 in ("&p1", "&*p1") and b.path not in byref_paths:
                        n += 1
                if n != 1:
                    probs.append("slot `%s` is consumed %d times on a path" % (slot, n))
        uniq = sorted(set(probs))
        res.oblige("C06.2 `%s` consumes the key slot and the value slot exactly once on every path" % b.path, not uniq, detail=uniq,
                   key="C06.2:%s:slots" % b.path, loc=span_str(b.span), rule="C06.2 sinks consume both slots once",
                   msg="`%s`: %s" % (b.path, "; ".join(uniq)))
    # ---- 3./4. copy-out primitive and clear_no_drop only where the protocol is completed
    co = copy_out_adts(ctx)
    hs = holders_of(ctx, co)
    for p, d in [(p_, d_) for (p_, d_) in eff.direct.items() if "#inl" not in p_]:
        body = ctx.facts.body(p)
        if body is None:
            continue
        callers_co = [c for c in cg.calls.get(p, []) if c.target is not None and eff.direct[c.target.path]["copy_out"]]
        for c in callers_co:
            res.count("C06.3 copy-out call sites")
            okc = False
            why = ""
            def relocation_ok(X):
                """X copies entries out, inserts them into another table, swaps the tables and empties the source without dropping on
                every path from each copy-out to a return"""
                dX = eff.direct.get(X.path)
                if dX is None:
                    return False
                gX = cfg_of(X)
                coX = [c2 for c2 in cg.calls.get(X.path, []) if c2.target is not None and eff.direct[c2.target.path]["copy_out"]]
                clearsX = [cc.bb for (cls, cc) in dX["table"] if cls == "clear"]
                return bool(dX["swap_table"] and clearsX and coX and any(cls in ("insert", "insert_grow") for (cls, _c) in dX["table"])
                            and all(gX.all_feasible_paths_pass(c2.bb, gX.return_blocks(), clearsX) for c2 in coX))

            if body.impl_self and body.impl_self.get("name") in co:
                okc = True       # a method of a copy-out iterator type (its step, or a helper of it): the holder's Drop discipline is checked below
            elif relocation_ok(body):
                okc = True
            else:
                why = "bitwise copy-out outside an owning iterator or a relocation"
                # the relocation may be split over private helpers (the copying loop, the commit): judge this body, then its callers,
                # with their helpers inlined
                tried = []
                b_view = _view(ctx, body)
                if b_view is not body and relocation_ok(b_view):
                    okc, why = True, ""
                    tried.append(body.path)
                else:
                    callers = [cc.body for cc in cg.callers_of(p) if cc.body is not None and not cc.body.is_closure]
                    if callers and all(relocation_ok(_view(ctx, X)) for X in callers):
                        okc, why = True, ""
                        tried = [x.path for x in callers]
                if okc:
                    res.note("C06.3 copy-out in `%s`: judged with helpers inlined (%s)" % (p, ", ".join(tried)))
            res.oblige("C06.3 copy-out in `%s` is completed by marking the source table empty without dropping" % p, okc, detail=why,
                       key="C06.3:%s:copy-out-protocol" % p, loc=c.loc, rule="C06.3 copy-out protocol",
                       msg="`%s` copies an entry out bitwise (%s): %s -- the source slot would be dropped again" % (p, c.callee, why))
        for c in d["copy_out"]:
            # a direct bitwise copy-out: only the one-line primitive that returns the copy (its callers are judged above)
            res.count("C06.3 direct copy-out sites")
            prim = False
            try:
                rs_ = te.all_results(body, max_paths=3)
                prim = len(rs_) == 1 and rs_[0].ret[0] == "call" and \
                    (norm(rs_[0].ret[1]) == "hashbrown::raw::Bucket::read" or _norm_copy_out(show(rs_[0].ret)).startswith("READ(")) \
                    and not rs_[0].stores and body.arg_count == 1
            except TooComplex:
                prim = False
            res.oblige("C06.3 direct bitwise copy-out in `%s` is the copy-out primitive itself" % p, prim, key="C06.3:%s:direct-copy-out" % p, loc=c.loc,
                       rule="C06.3 copy-out protocol",
                       msg="`%s` duplicates an entry bitwise (%s) outside the copy-out primitive: both copies own the key and value" % (p, c.callee))
        for (cls, c) in d["table"]:
            if cls == "clear" and norm(c.resolved or c.nominal).endswith("clear_no_drop"):
                res.count("C06.4 clear_no_drop sites")
                okc = (body.impl_trait == "std::ops::Drop" and body.impl_self and body.impl_self.get("name") in hs) or bool(d["swap_table"])
                res.oblige("C06.4 clear_no_drop in `%s` follows a copy-out of every entry" % p, okc, key="C06.4:%s:clear_no_drop" % p, loc=c.loc,
                           rule="C06.4 tables emptied through sinks",
                           msg="`%s` empties a table without dropping its entries although they were not moved out first (keys and values leak)" % p)
    check_owning_drops(ctx, res, "C06")
    c17(ctx, res)      # 3(i): a `&mut`-holding copy-out iterator must detach in its constructor (else a leaked iterator => double drop)
    # ---- 4. the cache's own Drop and clear(): drain through a sink; seal freed exactly once, after
    for (b, what) in ((r.trait_method("std::ops::Drop", "drop"), "Drop for the cache"), (r.method("clear"), "clear")):
        if b is None:
            res.violate("C06.4:anchor-missing:%s" % what, "%s not found" % what, None, {}, "anchors")
            continue
        res.count("C06.4 cache teardown paths")
        probs = _teardown_probs(ctx, b, what, sinks + byref)
        if probs:
            # the drain loop may live in a private helper: judge the body with its helpers inlined before reporting
            b2, inl = derive_inlined(ctx, b)
            if inl:
                probs2 = _teardown_probs(ctx, b2, what, sinks + byref)
                if not probs2:
                    res.note("C06.4 %s: judged with %s inlined" % (what, ", ".join(x.split("::")[-1] for x in inl)))
                    probs = []
        res.oblige("C06.4 %s drains the table through a sink on every path%s" % (what, " and frees the seal once, afterwards" if what.startswith("Drop") else ""),
                   not probs, detail=probs, key="C06.4:%s" % b.path, loc=span_str(b.span), rule="C06.4 tables emptied through sinks",
                   msg="%s: %s" % (what, "; ".join(probs)))
    # seal free / alloc sites
    freers = [p for p, d in eff.direct.items() if d["free"] and "#inl" not in p]
    callers = [c.body.path for p in freers for c in cg.callers_of(p)]
    drop_b = r.trait_method("std::ops::Drop", "drop")
    okf = all(x == (drop_b.path if drop_b else None) for x in callers)
    res.oblige("C06.4 the seal is freed only from the cache's Drop", okf, detail=callers, key="C06.4:seal-freed-elsewhere",
               rule="C06.4 seal lifecycle", msg="the seal-freeing primitive is called from %s" % callers)
    # ---- 6. a live entry's key/value slot is never overwritten in place
    nm_ = 0
    for b in ctx.facts.bodies:
        if b.file.endswith("mem_size.rs") or "#inl" in b.path:
            continue
        probs, n = slot_overwrites(ctx, b)
        nm_ += n
        for (bb, sl, why) in probs:
            res.violate("C06.6:%s:slot-overwrite:%s" % (b.path, sl),
                        "in `%s` the `%s` slot of an entry behind a pointer or reference is %s: `MaybeUninit` has no drop glue, so the "
                        "previous content is neither dropped nor handed back" % (b.path, sl, why),
                        b.loc(bb), {"bb": bb, "slot": sl}, "C06.6 no in-place overwrite of a live slot")
    res.count("C06.6 key/value slot borrows and stores through a pointer or reference", nm_)
    res.floor("C06.6 key/value slot borrows and stores through a pointer or reference", nm_, 1)
    res.oblige("C06.6 no body overwrites the key or value slot of an entry behind a pointer or reference without taking the previous content out "
               "first (%d slot borrows/stores inspected)" % nm_, not any(v.key.startswith("C06.6:") for v in res.violations), key="C06.6:summary")
    # ---- 5. clone duplicates through Clone
    for b in ctx.facts.bodies:
        if b.kind == "assoc_fn" and b.name == "clone" and b.impl_self and b.impl_self.get("name") == r.entry and not b.impl_trait:
            res.count("C06.5 Entry::clone")
            rs = te.all_results(b, max_paths=4)
            good = len(rs) == 1 and rs[0].ret[0] == "agg"
            why = []
            if good:
                f = dict(rs[0].ret[4])
                for slot, P in ((r.E_KEY, "K"), (r.E_VAL, "V")):
                    s_ = show(f.get(slot, ("?",)))
                    exp = "std::mem::MaybeUninit::<%s>::new(<%s as std::clone::Clone>::clone(std::mem::MaybeUninit::<%s>::assume_init_ref(&*p1.%s)))" % (P, P, P, slot)
                    if s_ != exp:
                        good = False
                        why.append("slot `%s` is `%s`" % (slot, s_[:160]))
                sz = show(f.get(r.E_SIZE, ("?",)))
                if sz != "*p1.%s" % r.E_SIZE:
                    good = False
                    why.append("size is `%s`, not the source entry's recorded size" % sz)
            res.oblige("C06.5 Entry::clone builds key and value with Clone::clone on the source's slots (no bitwise duplication) and copies the size",
                       good, detail=why, key="C06.5:entry-clone", loc=span_str(b.span), rule="C06.5 clone through Clone",
                       msg="Entry::clone: %s" % "; ".join(why))


def slot_overwrites(ctx, b):
    """C06.6: stores that overwrite the key/value slot (a `MaybeUninit` field) of an entry that lives behind a pointer or reference.
    Returns (problems, number of slot mentions seen).  `MaybeUninit` has no drop glue, so whatever the slot held is neither
    dropped nor handed back unless it is read out (`mem::replace(..).assume_init()`) or dropped in place first."""
    r = ctx.roles
    slots = (r.E_KEY, r.E_VAL)

    def slot_of(place, refs):
        pr = place["p"]
        if pr and pr[-1]["k"] == "field" and pr[-1].get("n") in slots and str(place.get("ty", "")).startswith("std::mem::MaybeUninit<") \
                and any(e["k"] == "deref" for e in pr[:-1]):
            return pr[-1]["n"]
        if len(pr) == 1 and pr[0]["k"] == "deref" and place["l"] in refs:
            return refs[place["l"]]
        return None

    refs, ptrs = {}, {}          # local -> slot name: `&mut slot` (also reborrowed / moved), `*mut` to the slot's content
    mentions = 0
    changed = True
    rounds = 0
    while changed and rounds < 6:
        changed = False
        rounds += 1
        for blk in b.blocks:
            for st in blk["stmts"]:
                if st["k"] != "assign" or st["place"]["p"]:
                    continue
                rv, d = st["rv"], st["place"]["l"]
                sl = None
                if rv["k"] in ("ref", "rawptr") and rv.get("mut"):
                    sl = slot_of(rv["place"], refs)
                    tgt = refs if rv["k"] == "ref" else ptrs
                elif rv["k"] in ("use", "cast") and rv["op"]["k"] in ("copy", "move") and not rv["op"]["place"]["p"]:
                    src = rv["op"]["place"]["l"]
                    if src in refs:
                        sl, tgt = refs[src], (refs if rv["k"] == "use" else ptrs)
                    elif src in ptrs:
                        sl, tgt = ptrs[src], ptrs
                if sl is not None and tgt.get(d) != sl:
                    tgt[d] = sl
                    changed = True
            t = blk["term"]
            if t["k"] == "call" and not t["dest"]["p"] and t["func"]["k"] == "const" and "fn" in t["func"]["c"]:
                nn = norm(t["func"]["c"]["fn"]["full"])
                a0 = t["args"][0] if t["args"] else None
                if a0 and a0["k"] in ("copy", "move") and not a0["place"]["p"] and a0["place"]["l"] in refs and \
                        nn in ("std::mem::MaybeUninit::as_mut_ptr", "std::mem::MaybeUninit::as_ptr"):
                    if ptrs.get(t["dest"]["l"]) != refs[a0["place"]["l"]]:
                        ptrs[t["dest"]["l"]] = refs[a0["place"]["l"]]
                        changed = True
    g = cfg_of(b)
    consumed = {}       # slot -> [bb] where its content is dropped in place / read out
    replaced = []       # (bb, slot, dest local) of mem::replace on a slot
    inits = set()       # locals consumed by assume_init
    writes = []         # (bb, slot, how)
    for bi, blk in enumerate(b.blocks):
        if blk.get("cleanup"):
            continue
        for st in blk["stmts"]:
            if st["k"] != "assign":
                continue
            sl = slot_of(st["place"], refs)
            if sl is not None:
                mentions += 1
                writes.append((bi, sl, "assignment"))
            rv = st["rv"]
            if rv["k"] in ("ref", "rawptr") and slot_of(rv["place"], refs) is not None:
                mentions += 1
        t = blk["term"]
        if t["k"] != "call" or t["func"]["k"] != "const" or "fn" not in t["func"]["c"]:
            continue
        nn = norm(t["func"]["c"]["fn"]["full"])
        al = [a["place"]["l"] if a["k"] in ("copy", "move") and not a["place"]["p"] else None for a in t["args"]]
        a0 = al[0] if al else None
        dest = t["dest"]["l"] if not t["dest"]["p"] else None
        if nn == "std::mem::MaybeUninit::assume_init" and a0 is not None:
            inits.add(a0)
        if a0 in ptrs and nn in ("std::ptr::drop_in_place", "std::ptr::read", "std::ptr::mut_ptr::read", "std::ptr::const_ptr::read"):
            consumed.setdefault(ptrs[a0], []).append(bi)
        if a0 in refs and nn in ("std::mem::MaybeUninit::assume_init_drop", "std::mem::MaybeUninit::assume_init_read"):
            consumed.setdefault(refs[a0], []).append(bi)
        if a0 in refs and nn == "std::mem::replace":
            replaced.append((bi, refs[a0], dest))
        elif a0 in refs and nn in ("std::mem::MaybeUninit::write", "std::mem::take", "std::mem::swap"):
            writes.append((bi, refs[a0], nn.split("::")[-1]))
        elif len(al) > 1 and al[1] in refs and nn == "std::mem::swap":
            writes.append((bi, refs[al[1]], "swap"))
        elif a0 in ptrs and nn in ("std::ptr::write", "std::ptr::mut_ptr::write", "std::ptr::write_unaligned", "std::ptr::write_bytes",
                                   "std::ptr::mut_ptr::write_bytes", "std::ptr::mut_ptr::replace", "std::ptr::replace", "std::ptr::swap",
                                   "std::ptr::mut_ptr::swap"):
            writes.append((bi, ptrs[a0], nn.split("::")[-1]))
        elif len(al) > 1 and al[1] in ptrs and nn in ("std::ptr::copy", "std::ptr::copy_nonoverlapping", "std::ptr::swap",
                                                      "std::ptr::const_ptr::copy_to", "std::ptr::const_ptr::copy_to_nonoverlapping",
                                                      "std::ptr::mut_ptr::copy_to", "std::ptr::mut_ptr::copy_to_nonoverlapping"):
            writes.append((bi, ptrs[al[1]], nn.split("::")[-1]))
    probs = []
    for (bi, sl, dest) in replaced:
        if dest is None or dest not in inits:
            probs.append((bi, sl, "replaced through mem::replace and the previous content is not taken out with assume_init"))
    for (bi, sl, how) in writes:
        # (a consuming call is its block's terminator: it precedes the store only if it sits in a strictly dominating block)
        if not any(cb != bi and g.dominates(cb, bi) for cb in consumed.get(sl, [])):
            probs.append((bi, sl, "overwritten (%s) while it may still hold an initialised %s" % (how, "key" if sl == r.E_KEY else "value")))
    return probs, mentions


# =====================================================================================================================
#  C04: faithful key -> value map
# =====================================================================================================================
def _hash_like(ctx, ty):
    """u64, or a private single-field newtype around it"""
    if ty.get("s") == "u64":
        return True
    if ty.get("k") == "adt" and ty.get("local"):
        a = ctx.facts.adts.get(ty["name"])
        if a and a.get("kind") == "struct":
            fs = a["variants"][0]["fields"]
            return len(fs) == 1 and fs[0]["ty"].get("s") == "u64"      # a private newtype around the hash value
    return False


def hash_functions(ctx):
    """crate-local fns that compute a key hash: contain a hash site directly and return u64"""
    return [b for b in ctx.facts.bodies if ctx.eff.direct[b.path]["hash"] and _hash_like(ctx, b.j.get("output", {}))]


def _te_c04(ctx):
    """term evaluator for the hash/eq agreement rules: wrappers are inlined (a helper that only forwards to the key-hash function, an
    accessor), the key-hash functions and the key-equivalence closure factories themselves stay named calls"""
    if not hasattr(ctx, "_te_c04"):
        te = TermEval(ctx.facts, ctx.cg, inline=True)
        te.no_inline = set(b.path for b in hash_functions(ctx)) | set(b.path for b in ctx.facts.bodies if b.is_closure)
        for b in ctx.facts.bodies:
            try:
                if not b.is_closure and b.j.get("output", {}).get("k") in ("closure", "opaque", "alias") and _is_eq_factory(ctx, b):
                    te.no_inline.add(b.path)
            except Exception:
                pass
        ctx._te_c04 = te
    return ctx._te_c04


def c04(ctx, res, only_hash_agreement=False):
    r, cg, eff = ctx.roles, ctx.cg, ctx.eff
    te = _te(ctx, False)
    hf = hash_functions(ctx)
    res.floor("C04 hash functions", len(hf), 1)
    hnames = set(b.path for b in hf)
    # each hash function: build_hasher on its first argument, hash the second, finish
    for b in hf:
        res.count("C04.1 hash functions")
        rs = te.all_results(b, max_paths=4)
        good = len(rs) == 1
        why = []
        if good:
            calls = [(norm(x[1]), [show(a) for a in x[2]]) for x in rs[0].calls]
            bh = [c for c in calls if c[0].endswith("BuildHasher::build_hasher") or "BuildHasher>::build_hasher" in c[0]]
            hh = [c for c in calls if c[0].endswith("Hash::hash") or "Hash>::hash" in c[0]]
            fin = [c for c in calls if c[0].endswith("Hasher::finish") or "Hasher>::finish" in c[0]]
            if not (len(bh) == 1 and bh[0][1][0] in ("p1", "&*p1")):
                why.append("does not build the hasher from its first argument")
            if not (len(hh) == 1 and hh[0][1][0] in ("p2", "&*p2")):
                why.append("does not hash its second argument exactly once")
            ret_ = rs[0].ret
            if ret_[0] == "agg" and ret_[1] == "adt" and len(ret_[4]) == 1:
                ret_ = ret_[4][0][1]          # (the hash wrapped in a single-field newtype)
            if not (len(fin) == 1 and show(ret_).startswith("<") and "finish" in show(ret_)):
                why.append("does not return Hasher::finish of that state")
        else:
            why.append("%d paths" % len(rs))
        res.oblige("C04.1 `%s` = BuildHasher(arg1).hash(arg2).finish()" % b.path, not why, detail=why, key="C04.1:%s:hash-fn" % b.path,
                   loc=span_str(b.span), rule="C04.1 hash function", msg="`%s`: %s" % (b.path, "; ".join(why)))
    # eq closure factories: closures handed to table lookups compare the captured key with the stored key through Borrow
    n_sites = 0
    work = [b for b in ctx.facts.bodies if not b.file.endswith("mem_size.rs")]
    deferred_done = set()
    deferred_sites = set()
    while work:
        b = work.pop(0)
        tcalls = [c for c in cg.calls.get(b.path, []) if c.model and c.model.get("table") in ("find", "remove", "insert", "insert_grow")]
        if not tcalls:
            continue
        tec = _te_c04(ctx)
        try:
            try:
                paths = tec.paths(b, max_paths=400, max_visits=2)       # (one unrolled iteration: a site may sit in a loop body)
            except TooComplex:
                paths = tec.paths(b, max_paths=60)
        except TooComplex:
            res.violate("C04.1:%s:too-complex" % b.path, "too many paths", span_str(b.span), {}, "C04.1")
            continue
        seen = set()
        for p in paths:
            pr = tec.eval_path(b, p)
            for (bb, full, argt, val, c) in pr.calls:
                if c is None or not (c.model and c.model.get("table") in ("find", "remove", "insert", "insert_grow")):
                    continue
                if (bb,) in seen:
                    continue
                seen.add((bb,))
                n_sites += 1
                res.count("C04.1 table call sites")
                cls = c.model["table"]
                tab = show(argt[0])
                probs = []
                # which cache object?
                owner = None
                for i in range(1, b.arg_count + 1):
                    if tab in ("&*p%d.%s" % (i, r.TABLE), "&p%d.%s" % (i, r.TABLE), "&**p%d.0.%s" % (i, r.TABLE)):
                        owner = "p%d" % i
                local_table = owner is None
                h = _unwrap_hash(argt[1], hnames)
                if cls in ("find", "remove") and h[0] == "param" and "#inl" not in b.path:
                    # the hash is handed in by the caller (a private helper): the site is judged inside every caller, with this
                    # helper inlined there
                    if b.path not in deferred_done:
                        deferred_done.add(b.path)
                        from ..inline import derive
                        ccs = [cc for cc in cg.callers_of(b.path) if cc.body is not None]
                        derived = []
                        for cc in ccs:
                            if cc.body.is_closure or cc.target is None or cc.target.path != b.path:
                                derived = None
                                break
                            X2, inl = derive(ctx, cc.body, lambda tg, _p=b.path: tg.path == _p, depth=1)
                            if not inl:
                                derived = None
                                break
                            derived.append(X2)
                        if ccs and derived:
                            work.extend(derived)
                            deferred_sites.add(b.path)
                    if b.path in deferred_sites:
                        continue
                    # (no caller, or a caller that cannot be inlined: the site is judged in place and reported -- fail closed)
                if cls in ("find", "remove"):
                    eqc = argt[2] if len(argt) > 2 else None
                    key_h = _hash_key(h, hnames, owner, r, probs)
                    key_e = None
                    if eqc is not None and eqc[0] == "call":
                        fb = ctx.facts.body(norm_path(eqc[1], ctx))
                        if fb is None or not _is_eq_factory(ctx, fb):
                            probs.append("the equality argument `%s` is not the key-equivalence closure" % show(eqc)[:100])
                        else:
                            key_e = eqc[2][0]
                    elif eqc is not None and eqc[0] == "closure":
                        probs.append("ad-hoc equality closure (not judged)")
                    if key_h is not None and key_e is not None and strip_refs(key_h) != strip_refs(key_e) and \
                            not _same_key(key_h, key_e) and not _same_key(key_e, key_h):
                        probs.append("the hash is computed from `%s` but equality compares with `%s`" % (show(key_h)[:100], show(key_e)[:100]))
                else:
                    ent = argt[2]
                    if h[0] == "param":
                        pass      # hash supplied by the caller: judged at the caller (below)
                    else:
                        key_h = _hash_key(h, hnames, owner if not local_table else None, r, probs, allow_closure=True, ctx=ctx)
                        if key_h is not None and not _key_of(key_h, ent):
                            probs.append("inserted with the hash of `%s`, which is not the inserted entry's key (`%s`)" % (show(key_h)[:120], show(ent)[:80]))
                bp = b.path.split("#inl")[0]
                res.oblige("C04.1 table %s in `%s` uses hash(hasher of the cache, k) and compares with the same k" % (cls, bp), not probs,
                           detail=probs, key="C04.1:%s:%s-site" % (bp, cls), loc=c.loc, rule="C04.1 hash/eq agreement",
                           msg="table %s in `%s`: %s" % (cls, bp, "; ".join(probs)))
    res.floor("C04.1 table call sites", n_sites, 6)
    # callers that pass a precomputed hash together with an entry: the hash must be that entry's key's
    for b in ctx.facts.bodies:
        if b.file.endswith("mem_size.rs"):
            continue
        for c in cg.calls.get(b.path, []):
            if c.target is None:
                continue
            tins = c.target.j.get("inputs") or []
            hpos = [i for i, t in enumerate(tins) if _hash_like(ctx, t)]
            epos = [i for i, t in enumerate(tins) if t.get("k") == "adt" and t.get("local") and t["name"] in (r.entry, _unhinged(ctx))]
            if not hpos or not epos or not any(cls in ("insert", "insert_grow") for (_p, (cls, _c)) in eff.trans(c.target)["table"]):
                continue
            res.count("C04.1 hash-passing call sites")
            probs = []
            tec = _te_c04(ctx)
            try:
                hp_paths = tec.paths(b, max_paths=400, max_visits=2)       # (one unrolled iteration: the call may sit in a loop body)
            except TooComplex:
                hp_paths = tec.paths(b, max_paths=60)
            reached = False
            for p in hp_paths:
                pr = tec.eval_path(b, p)
                for (bb, full, argt, val, cc) in pr.calls:
                    if cc is not c:
                        continue
                    reached = True
                    h, e = _unwrap_hash(argt[hpos[0]], hnames), argt[epos[0]]
                    if h[0] == "param":
                        continue
                    hinfo = {}
                    kh = _hash_key(h, hnames, None, r, probs, allow_closure=True, ctx=ctx, info=hinfo)
                    if kh is not None and not _key_of(kh, e):
                        probs.append("passes the hash of `%s` with the entry `%s`" % (show(kh)[:100], show(e)[:100]))
                    # the hash must come from the hash builder of the very cache whose table receives the entry (a clone's builder
                    # need not hash like the original's) -- also when it is computed by a hasher closure built over that builder
                    if h[0] == "call" and tins and r.is_cache_ty(tins[0].get("ty", tins[0])) and h[2] and hinfo.get("hb") is not None:
                        hb = strip_refs(hinfo["hb"])
                        recv = strip_refs(argt[0])
                        if hb[0] == "field" and hb[2] == r.HB and show(strip_refs(hb[1])) != show(recv):
                            probs.append("passes to a method of the cache `%s` a hash built with the hash builder of `%s`"
                                         % (show(recv)[:80], show(strip_refs(hb[1]))[:80]))
            if not reached:
                probs.append("the call site is not reached by any enumerated path (not judged: fail closed)")
            uniq = sorted(set(probs))
            res.oblige("C04.1 `%s` passes to `%s` the hash of the very entry it passes" % (b.path, c.target.path), not uniq, detail=uniq,
                       key="C04.1:%s:passes-hash:%s" % (b.path, c.target.name), loc=c.loc, rule="C04.1 hash/eq agreement",
                       msg="`%s` -> `%s`: %s" % (b.path, c.target.path, "; ".join(uniq)))
    if only_hash_agreement:
        return
    # ---- C04.3 results are projected from the entry the lookup returned
    te2 = _te(ctx, True)
    n_res = 0
    for b in r.pub_methods():
        out = b.j["output"]
        if not (out.get("k") == "adt" and out.get("name") == "std::option::Option"):
            continue
        inner = out["args"][0]
        if inner.get("k") not in ("ref", "tuple"):
            continue
        # only direct lookups (bodies that call the table or read the seal themselves, after inlining of helpers)
        try:
            rs = te2.all_results(b, max_paths=20)
        except TooComplex:
            continue
        for pr in rs:
            rt = pr.ret
            if rt[0] == "call" and "Option" in rt[1] and "::map" in rt[1] and rt[2][1][0] == "closure":
                cb = ctx.facts.body(rt[2][1][1])
                crs = te2.all_results(cb, max_paths=6) if cb else []
                for cr in crs:
                    n_res += 1
                    s_ = show(cr.ret)
                    ents = set()
                    import re
                    for m in re.finditer(r"assume_init_ref\(&(\**[^()]*?)\.(%s|%s)\)" % (r.E_KEY, r.E_VAL), s_):
                        ents.add(m.group(1))
                    if not ents:
                        continue      # a projection of another method's (already judged) result
                    ok = len(ents) == 1
                    res.count("C04.3 projected results")
                    res.oblige("C04.3 `%s` projects its result from the one entry the lookup produced" % b.path, ok, detail=s_[:200],
                               key="C04.3:%s:projection" % b.path, loc=span_str(b.span), rule="C04.3 result provenance",
                               msg="`%s` builds its result from %d different entries: %s" % (b.path, len(ents), s_[:200]))
    res.assumptions.append("hashbrown's probing/collision handling/growth are trusted (lmv/models.py); Borrow coherence of user key types")


def norm_path(full, ctx):
    """callee `full` string -> body path (strip generic args of the last segment)"""
    n = full
    if n in ctx.facts.by_path:
        return n
    # strip trailing ::<...>
    if n.endswith(">") and "::<" in n:
        base = n[:n.rindex("::<")]
        if base in ctx.facts.by_path:
            return base
    return n


def _unhinged(ctx):
    for n, a in ctx.facts.adts.items():
        if a["kind"] == "struct" and n != ctx.roles.entry:
            tys = [f["ty"] for f in a["variants"][0]["fields"]]
            if len(tys) == 3 and sum(1 for t in tys if t.get("k") == "param") == 2 and any(t.get("s") == "usize" for t in tys) and a["vis"] != "pub":
                if not n.endswith("TooLarge"):
                    return n
    return None


def _is_eq_factory(ctx, fb):
    """fn(k) -> closure |x| k.eq(x.key().borrow())"""
    te = _te(ctx, False)
    rs = te.all_results(fb, max_paths=3)
    if len(rs) != 1 or rs[0].ret[0] != "closure":
        return False
    cb = ctx.facts.body(rs[0].ret[1])
    if cb is None or show(rs[0].ret[2][0]) not in ("p1", "&*p1"):
        return False
    te2 = _te(ctx, True)
    crs = te2.all_results(cb, max_paths=3)
    if len(crs) != 1:
        return False
    s_ = show(crs[0].ret)
    r = ctx.roles
    return ("PartialEq>::eq(" in s_ or "PartialEq::eq(" in s_) and "Borrow" in s_ and (".%s)" % r.E_KEY) in s_ and "p1.0" in s_.replace("*", "").replace("&", "")


def _unwrap_hash(h, hnames):
    """a hash carried in a transparent newtype: `keyhash(..).0` / `p.0` (field 0 of what a key-hash function returned, or of a
    parameter) is that hash"""
    while h[0] == "field" and str(h[2]) == "0" and (h[1][0] == "param" or (h[1][0] == "call" and h[1][1].split("::<")[0] in hnames)):
        h = h[1]
    return h


def _strip_generic_args(name):
    """`a::<T, U<V>>::b` -> `a::b`"""
    out, depth, i = [], 0, 0
    while i < len(name):
        if depth == 0 and name.startswith("::<", i):
            depth, i = 1, i + 3
            continue
        ch = name[i]
        if depth:
            if ch == "<":
                depth += 1
            elif ch == ">" and name[i - 1] != "-":
                depth -= 1
        else:
            out.append(ch)
        i += 1
    return "".join(out)


def _hash_key(h, hnames, owner, r, probs, allow_closure=False, ctx=None, info=None):
    """for a hash term `hashfn(hb, key)` return the key term; record problems; info["hb"] receives the hash builder term"""
    if h[0] == "call":
        base = h[1].split("::<")[0]
        if base in hnames or any(base == hn for hn in hnames):
            hb = show(h[2][0])
            if info is not None:
                info["hb"] = h[2][0]
            if owner is not None and hb not in ("&*%s.%s" % (owner, r.HB), "&%s.%s" % (owner, r.HB)):
                probs.append("hash built with `%s`, not with the cache's own hash builder" % hb)
            elif owner is None and ("." + r.HB) not in hb:
                probs.append("hash built with `%s`, not with a cache's hash builder" % hb)
            return h[2][1]
        if allow_closure and "as std::ops::Fn" in h[1]:
            # hasher closure applied to the entry: key of its argument
            return ("keyof", h[2][1])
        if allow_closure and ctx is not None and "{closure" in h[1] and len(h[2]) == 2:
            # the call is resolved to the closure body: it must return keyhash(captured hash builder, key of its argument), and the
            # captured hash builder must be a cache's
            cb = ctx.facts.body(_strip_generic_args(h[1]))
            if cb is not None and cb.is_closure:
                tec = _te_c04(ctx)
                try:
                    rs = tec.all_results(cb, max_paths=3)
                except TooComplex:
                    rs = []
                cret = _unwrap_hash(rs[0].ret, hnames) if len(rs) == 1 else None
                if len(rs) == 1 and cret[0] == "call" and cret[1].split("::<")[0] in hnames and len(cret[2]) == 2 \
                        and not rs[0].stores:
                    hb_in, key_in = cret[2]
                    env = strip_refs(h[2][0])
                    caps = [show(a) for a in env[2]] if env[0] == "closure" else []
                    hbs = strip_refs(hb_in)
                    cap_i = int(hbs[2]) if hbs[0] == "field" and strip_refs(hbs[1]) == ("param", 1) and str(hbs[2]).isdigit() else None
                    if cap_i is None or cap_i >= len(caps) or ("." + r.HB) not in caps[cap_i]:
                        probs.append("hasher closure `%s` is built over `%s`, not over a cache's hash builder" % (h[1][:60], ", ".join(caps)[:80]))
                    elif owner is not None and caps[cap_i] not in ("&*%s.%s" % (owner, r.HB), "&%s.%s" % (owner, r.HB)):
                        probs.append("hasher closure built with `%s`, not with the cache's own hash builder" % caps[cap_i])
                    if info is not None and cap_i is not None and cap_i < len(caps):
                        info["hb"] = env[2][cap_i]
                    if _key_of(key_in, ("param", 2)):
                        return ("keyof", h[2][1])
                    probs.append("hasher closure `%s` hashes `%s`, not the key of its argument" % (h[1][:60], show(key_in)[:80]))
                    return None
    probs.append("the hash operand `%s` is not produced by the key-hash function" % show(h)[:120])
    return None


def _same_key(a, b):
    """b is `X::key(&E)` (or, with the accessor inlined, `&E.key`) and a is the raw key value E was built from"""
    if b[0] == "call" and norm(b[1]).endswith("::key") and b[2]:
        return _key_of(a, b[2][0])
    bt = strip_refs(b)
    while bt[0] == "call" and ("assume_init_ref" in bt[1] or "assume_init_mut" in bt[1]) and len(bt[2]) == 1:
        bt = strip_refs(bt[2][0])
    if bt[0] == "field" and str(bt[2]).lower().endswith("key"):
        return _key_of(a, bt[1])
    return False


def _copy_source(e):
    """if the entry term is a bitwise copy `read(p)` (possibly with fields other than the key replaced afterwards): p, else None"""
    e2 = strip_refs(e)
    while e2[0] == "agg" and e2[1] == "upd" and not any(str(n_).lower().endswith("key") for (n_, _v) in e2[4] if n_ != ".."):
        base_ = [v_ for (n_, v_) in e2[4] if n_ == ".."]
        if len(base_) != 1:
            return None
        e2 = strip_refs(base_[0])
    if e2[0] == "call" and len(e2[2]) == 1 and (_norm_copy_out(show(e2)).startswith("READ(") or norm(e2[1]) in ("std::ptr::read", "core::ptr::read")):
        return strip_refs(e2[2][0])
    return None


def _key_of(key_term, entry_term):
    """is key_term the key of entry_term (…::key(&E) / keyof(E) with E the same value)?"""
    e = strip_refs(entry_term)
    if key_term[0] == "keyof":
        k = key_term[1]
        while k[0] == "agg" and k[1] == "tuple":
            k = k[4][0][1]
        if strip_refs(k) == e or show(e) in show(k):
            return True
        # the entry is a bitwise copy of the hashed one (`read(p)`, possibly with other fields than the key replaced afterwards)
        src = _copy_source(e)
        return src is not None and src == strip_refs(k)
    # accessor inlined: assume_init_ref(&E.key) / &E.key
    kt = strip_refs(key_term)
    while kt[0] == "call" and ("assume_init_ref" in kt[1] or "assume_init_mut" in kt[1]) and len(kt[2]) == 1:
        kt = strip_refs(kt[2][0])
    if kt[0] == "field" and str(kt[2]).lower().endswith("key") and (strip_refs(kt[1]) == e or show(strip_refs(kt[1])) == show(e)):
        return True
    if kt[0] == "field" and str(kt[2]).lower().endswith("key") and _copy_source(e) is not None and strip_refs(kt[1]) == _copy_source(e):
        return True     # (the key slot of the entry the inserted one is a bitwise copy of)
    # the entry is an aggregate built in this body: the hashed value is the value its key field was built from
    if e[0] == "agg" and e[1] == "adt":
        for (fname, fval) in e[4]:
            if str(fname).lower().endswith("key") and (strip_refs(fval) == kt or show(strip_refs(fval)) == show(kt)):
                return True
    ks = show(strip_refs(key_term))
    if key_term[0] in ("param", "field", "deref", "ref") and ks in show(entry_term) and ks != show(e):
        return True     # the raw key value from which the entry was built
    if key_term[0] == "call" and norm(key_term[1]).endswith("::key"):
        return strip_refs(key_term[2][0]) == e or show(strip_refs(key_term[2][0])) in show(e) or show(e) in show(key_term[2][0])
    return False


# =====================================================================================================================
#  C05: list primitives and who may promote
# =====================================================================================================================
def _reads_both_links(ctx, b):
    r = ctx.roles
    read = set()
    for bl in b.blocks:
        for st_ in bl["stmts"]:
            if st_["k"] != "assign":
                continue
            rv = st_["rv"]
            pls = []
            if rv["k"] == "use" and rv["op"].get("k") in ("copy", "move"):
                pls.append(rv["op"]["place"])
            elif rv["k"] in ("ref", "rawptr", "copyforderef"):
                pls.append(rv["place"])
            for pl in pls:
                for e in pl.get("p", []):
                    if e["k"] == "field" and e.get("n") in r.links and e.get("of") == r.entry:
                        read.add(e["n"])
    return len(read) >= 2


def list_primitives(ctx):
    """(splice-in bodies, unlink bodies).  splice-in: a loop-free body whose only effects are 4 link stores through pointers.
    unlink: a loop-free body that reads both links of a node and performs -- itself or through helpers it calls -- exactly 2 link
    stores through pointers (a helper that merely stores two links it is handed is not a primitive of its own)."""
    if hasattr(ctx, "_list_prims"):
        return ctx._list_prims
    r, eff = ctx.roles, ctx.eff
    ins, outs = [], []
    for b in ctx.facts.bodies:
        d = eff.direct[b.path]
        if b.is_closure or cfg_of(b).loops() or d["table"] or d["swap_table"] or d["w_cache"]:
            continue
        n = sum(1 for (f, _b, _s, via) in d["w_entry"] if via and f in r.links)
        if n == 4:
            ins.append(b)
            continue
        tr = eff.trans(b, include_drops=False)
        nt = sum(1 for (_p, (f, _b, _s, via)) in tr["w_entry"] if via and f in r.links)
        if nt == 2 and not tr["table"] and not tr["swap_table"] and not tr["w_cache"] and _reads_both_links(ctx, b) \
                and not any(c.model and c.model.get("table") == "new" for c in ctx.cg.calls.get(b.path, [])) \
                and not any(norm(c.resolved or c.nominal).startswith("std::boxed::Box") for c in ctx.cg.calls.get(b.path, [])):
            outs.append(b)
    ctx._list_prims = (ins, outs)
    return ins, outs


def _te_stores(ctx):
    """term evaluator that also inlines single-path helpers which store (their stores are expressed in the caller's terms)"""
    if not hasattr(ctx, "_te_st"):
        te = TermEval(ctx.facts, ctx.cg, inline=True)
        te.inline_stores = True
        ctx._te_st = te
    return ctx._te_st


def _neighbours_from_params(ctx, te0, b, c, X):
    """at call `c` (to the splice primitive) in `b`, are both neighbours expressed through parameters of `b` other than a cache?"""
    import re
    r = ctx.roles
    try:
        for p in te0.paths(b, max_paths=20):
            pr = te0.eval_path(b, p)
            for (bb, full, argt, val, cc) in pr.calls:
                if cc is not c or len(argt) < 3:
                    continue
                sx, sy = show(argt[1]), show(argt[2])
                if ("." + r.SEAL) in sx or ("." + r.SEAL) in sy:
                    return False
                return bool(re.search(r"p\d", sx)) and bool(re.search(r"p\d", sy))
    except TooComplex:
        return False
    return False


def _closure_env_args(ctx, te, cb):
    """Terms for the parameters of the closure body `cb` in which its environment (the captured places) is expressed through the
    parameters of the one body that creates it; None if there is no unique creator or the captures differ between its paths."""
    from ..terms import subterms
    origin = cb.path.split("#inl")[0]
    parents = [b for b in ctx.facts.bodies if "#inl" not in b.path and any(x.path == origin for x in ctx.cg.creates.get(b.path, []))]
    if len(parents) != 1 or parents[0].is_closure:
        return None
    par = parents[0]
    found = {}
    try:
        for p in te.paths(par, max_paths=40):
            pr = te.eval_path(par, p)
            cands = [pr.ret] + [a for (_bb, _f, argt, _v, _c) in pr.calls for a in argt] + [v for (_p, v, _b) in pr.stores]
            for t0 in cands:
                if not isinstance(t0, tuple):
                    continue
                for t in subterms(t0):
                    if isinstance(t, tuple) and t and t[0] == "closure" and t[1] == origin:
                        found[tuple(show(a) for a in t[2])] = t
    except TooComplex:
        return None
    if len(found) != 1:
        return None
    clo = list(found.values())[0]
    ty1 = cb.j["locals"][1]["ty"] if len(cb.j["locals"]) > 1 else {}
    env = ("ref", clo) if ty1.get("k") == "ref" else clo
    return [env] + [("param", i) for i in range(2, cb.arg_count + 1)]


def c05(ctx, res, only_list_shape=False):
    r, cg, eff = ctx.roles, ctx.cg, ctx.eff
    te = _te(ctx, True)
    ins, outs = list_primitives(ctx)
    res.floor("C05.3 splice-in primitives", len(ins), 1)
    res.floor("C05.3 unlink primitives", len(outs), 2)
    A, B = r.L_LRU, r.L_MRU
    raw = r.EPTR_RAW
    # ---- 3. store sets
    splice_field_of_first = {}
    for b in ins:
        res.count("C05.3 list primitives")
        rs = te.all_results(b, max_paths=3)
        good = len(rs) == 1
        why = []
        if good:
            st = sorted((show(p), show(v)) for (p, v, _bb) in rs[0].stores)
            found = None
            for (X, Y) in (("p2", "p3"), ("p3", "p2")):
                for (F, G) in ((A, B), (B, A)):
                    # the node is `&mut self` (value *p1, fields **p1.raw.f) or the handle by value (value p1, fields *p1.raw.f)
                    for (nodeval, nodefld) in (("*p1", "**p1"), ("p1", "*p1")):
                        exp = sorted([("*%s.%s.%s" % (X, raw, F), nodeval), ("*%s.%s.%s" % (Y, raw, G), nodeval),
                                      ("%s.%s.%s" % (nodefld, raw, G), X), ("%s.%s.%s" % (nodefld, raw, F), Y)])
                        if st == exp:
                            found = (X, Y, F, G)
            if found is None:
                good = False
                why.append("stores %s are not a doubly-linked splice of *self between its two arguments" % st)
            else:
                splice_field_of_first[b.path] = found
        else:
            why.append("%d paths" % len(rs))
        res.oblige("C05.3 `%s` writes exactly the four links of a splice-in" % b.path, good, detail=why, key="C05.3:%s:splice-in" % b.path,
                   loc=span_str(b.span), rule="C05.3 list primitives", msg="`%s`: %s" % (b.path, "; ".join(why)))
    for b in outs:
        res.count("C05.3 list primitives")
        rs = _te_stores(ctx).all_results(b, max_paths=3)
        good = len(rs) == 1
        why = []
        if good:
            st = sorted((show(p), show(v)) for (p, v, _bb) in rs[0].stores)
            ok = False
            for node in ("p1", "*p1.%s" % raw, "**p1.%s" % raw):
                def fld(n, f):
                    return "%s.%s" % (n, f)
                for (n_read,) in ((node,),):
                    exp = sorted([("*%s.%s.%s" % (fld(n_read, A), raw, B), fld(n_read, B)),
                                  ("*%s.%s.%s" % (fld(n_read, B), raw, A), fld(n_read, A))])
                    if st == exp:
                        ok = True
            # by-value self: fields without deref
            if not ok:
                why.append("stores %s are not `n.%s.%s = n.%s; n.%s.%s = n.%s`" % (st, A, B, B, B, A, A))
                good = False
        else:
            why.append("%d paths" % len(rs))
        res.oblige("C05.3 `%s` writes exactly the two links that bypass the node" % b.path, good, detail=why, key="C05.3:%s:unlink" % b.path,
                   loc=span_str(b.span), rule="C05.3 list primitives", msg="`%s`: %s" % (b.path, "; ".join(why)))
    # callers of splice-in on a cache: node goes between the seal and the seal's MRU link, seal-side field = MRU link
    te0 = _te(ctx, True)        # (accessors and single-path helpers such as a `list_ends()` snapshot are seen through)
    n_call = 0
    work_b = [(b_, frozenset()) for b_ in ctx.facts.bodies]
    deferred_b = set()
    deferred_ok = set()
    while work_b:
        b, inl_set = work_b.pop(0)
        for c in cg.calls.get(b.path, []):
            if c.target is None or c.target.path not in splice_field_of_first:
                continue
            (X, Y, F, G) = splice_field_of_first[c.target.path]
            origin = b.path.split("#inl")[0]
            if len(inl_set) < 4 and not b.is_closure and _neighbours_from_params(ctx, te0, b, c, X):
                # a wrapper of the splice primitive that receives the neighbours (or the node they are read from) as parameters:
                # where the node goes is decided by its callers -- judge them with this wrapper (chain) inlined.  The site is only
                # skipped here if every caller could be derived; otherwise it is judged in place (fail closed).
                if origin in deferred_ok:
                    continue
                if origin not in deferred_b:
                    deferred_b.add(origin)
                    from ..inline import derive
                    new_set = inl_set | frozenset([origin])
                    callers_ = [cc for cc in cg.callers_of(origin) if cc.body is not None]
                    derived_ = []
                    for cc in callers_:
                        if cc.target is None or cc.target.path != origin:
                            derived_ = None      # reached through trait dispatch: cannot be inlined
                            break
                        X2_, inl_ = derive(ctx, cc.body, lambda tg, _s=new_set: tg.path in _s, depth=len(new_set) + 1)
                        if not inl_:
                            derived_ = None
                            break
                        derived_.append((X2_, new_set))
                    if callers_ and derived_:
                        deferred_ok.add(origin)
                        work_b.extend(derived_)
                        continue
            n_call += 1
            res.count("C05.3 promotion sites")
            probs = []
            # a closure sees the cache through its captures: express them through the parameters of the body that creates it
            cl_args = _closure_env_args(ctx, te0, b) if b.is_closure else None
            for p in te0.paths(b, max_paths=20):
                pr = te0.eval_path(b, p, args=cl_args)
                for (bb, full, argt, val, cc) in pr.calls:
                    if cc is not c:
                        continue
                    ax = argt[1] if X == "p2" else argt[2]
                    ay = argt[2] if X == "p2" else argt[1]
                    sx, sy = show(ax), show(ay)
                    # X must be the seal and its written field F the MRU link; Y the old MRU (seal's MRU link)
                    seal_terms = [s_ for s_ in (sx, sy) if s_.endswith(".%s" % r.SEAL) and "(" not in s_]
                    if sx.endswith(".%s" % r.SEAL) and F == B:
                        if not (("." + r.SEAL) in sy and sy.rstrip(")").endswith("." + B)):
                            probs.append("second neighbour is `%s`, not the seal's MRU-side link" % sy[:100])
                    elif sy.endswith(".%s" % r.SEAL) and G == B:
                        if not (("." + r.SEAL) in sx and sx.rstrip(")").endswith("." + B)):
                            probs.append("second neighbour is `%s`, not the seal's MRU-side link" % sx[:100])
                    else:
                        probs.append("the node is not linked directly next to the seal on its MRU side (neighbours `%s`, `%s`)" % (sx[:80], sy[:80]))
            uniq = sorted(set(probs))
            bp_ = b.path.split("#inl")[0]
            res.oblige("C05.3 `%s` links the node between the seal and the current most-recently-used entry" % bp_, not uniq, detail=uniq,
                       key="C05.3:%s:mru-side" % bp_, loc=c.loc, rule="C05.3 promotion at the MRU end", msg="`%s`: %s" % (bp_, "; ".join(uniq)))
    res.floor("C05.3 promotion sites", n_call, 1)
    if only_list_shape:
        return
    # ---- 1. who may reach the promotion primitive (call graph; complements the E3 may-ghost for everything that is not &mut self)
    promoting = {"insert", "try_insert", "get", "get_entry", "get_lru", "touch", "mutate"}
    inplace_unlink = [b for b in outs if (b.j.get("inputs") or [{}])[0].get("name") == r.eptr]
    bad_targets = set(x.path for x in ins) | set(x.path for x in inplace_unlink)
    eps = list(r.pub_methods()) + [b for b in ctx.facts.bodies if b.kind == "assoc_fn" and b.impl_trait and b.impl_self and b.impl_self.get("local")
                                   and b.impl_trait not in ("std::clone::Clone",) or False]
    for b in eps:
        if b.kind != "assoc_fn":
            continue
        is_cache_inherent = b.impl_self and b.impl_self.get("name") == r.cache and not b.impl_trait
        if is_cache_inherent and b.name in promoting:
            continue
        if b.impl_trait == "std::clone::Clone" and b.impl_self and b.impl_self.get("name") == r.cache:
            continue
        res.count("C05.1 non-promoting entry points")
        reach = cg.reach(b)
        hit = sorted(p for p in reach if p in bad_targets)
        res.oblige("C05.1 `%s` cannot reach the promotion primitive" % b.path, not hit, key="C05.1:%s:may-promote" % b.path, loc=span_str(b.span),
                   rule="C05.1 who may promote", msg="`%s` reaches %s: it can change the recency order although it is an observation / removal / "
                   "capacity operation" % (b.path, hit))


# =====================================================================================================================
#  C14: clone
# =====================================================================================================================
def c14(ctx, res):
    r, cg, eff = ctx.roles, ctx.cg, ctx.eff
    te = _te(ctx, True)
    b = r.trait_method("std::clone::Clone", "clone")
    if b is None:
        res.violate("C14:anchor-missing:clone", "Clone for the cache not found", None, {}, "anchors")
        return
    loc = span_str(b.span)
    if not cfg_of(b).loops():
        # the traversal loop lives in a private helper (`clone_entries_from(&mut self, source)`, a private iterator's `next`):
        # judge clone with the helpers that contain a loop inlined
        try:
            from ..inline import derive
            prims = _named_primitives(ctx)
            b2, inl = derive(ctx, b, lambda tg: tg.path not in prims and not tg.is_closure and bool(cfg_of(tg).loops()), depth=2)
            if inl:
                res.note("C14: clone judged with %s inlined" % ", ".join(x.split("::")[-1] for x in inl))
                b = b2
        except Exception:
            pass
    try:
        paths = te.paths(b, max_visits=2, max_paths=100)
    except TooComplex as e:
        res.violate("C14:too-complex", str(e), loc, {}, "C14")
        return
    sealp = "p1.%s.%s" % (r.SEAL, r.EPTR_RAW)
    A, Bm = r.L_LRU, r.L_MRU
    starts = {"**%s.%s" % (sealp, A): A, "**%s.%s" % (sealp, Bm): Bm}
    probs = []
    n_it = 0
    for p in paths:
        pr = te.eval_path(b, p)
        ret = pr.ret
        if ret[0] != "agg" or ret[2] != r.cache:
            probs.append("the result is not built as a fresh cache value")
            continue
        f = dict(ret[4])
        fields = {k: show(v) for k, v in f.items()}
        stores = {show(pl): show(v) for (pl, v, _bb) in pr.stores}
        if fields.get(r.MS) != "*p1.%s" % r.MS:
            probs.append("max_size of the clone is `%s`" % fields.get(r.MS))
        if fields.get(r.CS) != "*p1.%s" % r.CS:
            probs.append("current_size of the clone is `%s`, not the source's" % fields.get(r.CS))
        hb = fields.get(r.HB, "")
        if not (hb.startswith("<") and "as std::clone::Clone>::clone(&*p1.%s)" % r.HB in hb):
            probs.append("the hash builder is `%s`, not a clone of the source's" % hb[:80])
        tb = fields.get(r.TABLE, "")
        if not ("::with_capacity(" in tb and "::capacity(&*p1.%s)" % r.TABLE in tb):
            probs.append("the clone's table is requested as `%s`, not with the source's capacity()" % tb[:120])
        sl = fields.get(r.SEAL, "")
        if "p1." in sl:
            probs.append("the clone's seal derives from the source (`%s`)" % sl[:80])
        conds = [(show(d), ch) for (d, ch, _bb) in pr.conds if "PartialEq" in show(d) or " Eq " in show(d) or " Ne " in show(d)]
        if not conds:
            probs.append("no traversal loop")
            continue
        d0 = conds[0][0]
        direction = None
        for s_, dr in starts.items():
            if s_ in d0 and ("*p1.%s" % r.SEAL) in d0:
                direction = dr
        if direction is None:
            probs.append("the traversal does not start at one of the source seal's links / stop at the source seal: `%s`" % d0[:160])
            continue
        if len(conds) < 2:
            continue
        n_it += 1
        ent0 = "***%s.%s.%s" % (sealp, direction, r.EPTR_RAW)
        d1 = conds[1][0]
        if ("%s.%s" % (ent0, direction)) not in d1:
            probs.append("the traversal does not continue with the visited entry's `%s` link: `%s`" % (direction, d1[:160]))
        clones = [x for x in pr.calls if x[4] is not None and x[4].target is not None and x[4].target.name == "clone"
                  and x[4].target.impl_self and x[4].target.impl_self.get("name") == r.entry]
        if len(clones) != 1 or show(clones[0][2][0]).lstrip("&") != ent0.lstrip("*") and ent0.lstrip("*") not in show(clones[0][2][0]):
            probs.append("the visited entry is not duplicated with Entry::clone exactly once")
        inserts = [x for x in pr.calls if x[4] is not None and x[4].target is not None and
                   any(cls in ("insert", "insert_grow") for (_p, (cls, _c)) in eff.trans(x[4].target)["table"])]
        if len(inserts) != 1:
            probs.append("%d insertions per visited entry" % len(inserts))
        else:
            tgt = show(inserts[0][2][0])
            if "p1" in tgt.split("{")[0]:
                probs.append("the clone of an entry is inserted into the source (`%s`)" % tgt[:60])
            # which side?  walking from the LRU end, each clone must become the MRU of the new cache (and vice versa)
            # (the splice may sit inside the inserting routine or follow it as a separate call of the same iteration)
            insset = set(x.path for x in list_primitives(ctx)[0])
            promoter = any(pp in insset for x in pr.calls if x[4] is not None and x[4].target is not None for pp in cg.reach(x[4].target))
            if direction == A and not promoter:
                probs.append("walking from the least-recently-used end but the clones are not linked at the MRU end of the new cache")
            if direction == Bm:
                probs.append("walking from the most-recently-used end while inserting at the MRU end reverses the order")
    uniq = sorted(set(probs))
    res.count("C14 clone paths", len(paths))
    res.oblige("C14.1 clone copies max_size/current_size, clones the hasher, requests the source's capacity, and re-inserts Entry::clone of every "
               "visited entry in an order-preserving traversal of the source", not uniq, detail=uniq, key="C14.1:clone-shape", loc=loc,
               rule="C14.1 clone terms", msg="clone: %s" % "; ".join(uniq))
    # ---- 3. independence: no pointer into the source survives: copied links of the cloned entry are overwritten by the splice-in
    ins, _outs = list_primitives(ctx)
    ok3 = bool(ins)
    # the inserted entry reaches the splice-in primitive as its node on every path of the inserting routine
    for c in cg.calls.get(b.path, []):
        if c.target is not None and any(cls in ("insert", "insert_grow") for (_p, (cls, _c)) in eff.trans(c.target)["table"]) and c.target.name != "clone":
            g = cfg_of(c.target)
            promo_calls = [cc for cc in cg.calls.get(c.target.path, []) if cc.target is not None and
                           any(pp in set(x.path for x in ins) for pp in cg.reach(cc.target))]
            if not promo_calls or not g.all_paths_pass(0, g.return_blocks(), [cc.bb for cc in promo_calls]):
                # not inside the inserting routine: then the caller must splice the node in before the iteration ends
                gc = cfg_of(b)
                inspaths = set(x.path for x in ins)
                promo_here = [cc.bb for cc in cg.calls.get(b.path, []) if cc.target is not None and
                              any(pp in inspaths for pp in cg.reach(cc.target))]
                heads = [h for h, blocks in gc.loops().items() if c.bb in blocks]
                if not promo_here or not all(gc.all_paths_pass(s_, list(gc.return_blocks()) + heads, promo_here) for s_ in gc.nsucc[c.bb]):
                    ok3 = False
    res.oblige("C14.3 every cloned entry passes through the splice-in primitive (which overwrites both copied links) before the routine returns", ok3,
               key="C14.3:copied-links-overwritten", loc=loc, rule="C14.3 independence",
               msg="a cloned entry can stay in the new cache with links copied from the source: later operations on the clone would write into the source")
    # ---- 2. source untouched: C19's taint analysis of clone
    from ..taint import TaintAnalysis
    ta = TaintAnalysis(ctx)
    ta.run(b, frozenset([1]))
    res.count("C14.2 taint contexts", len(ta.memo))
    res.oblige("C14.2 clone writes nothing through a pointer derived from the source", not ta.writes, detail=[w[2] for w in ta.writes][:5],
               key="C14.2:clone-writes-source", loc=loc, rule="C14.2 source untouched", msg="clone writes to the source: %s" % [w[2] for w in ta.writes][:3])


# =====================================================================================================================
#  C10 / C11 structural clauses
# =====================================================================================================================
def c10(ctx, res):
    r, cg, eff = ctx.roles, ctx.cg, ctx.eff
    te = _te(ctx, True)
    # 6. accessors of the public error enum return the fields of the variant they are called on
    for name, a in ctx.facts.adts.items():
        if a["kind"] != "enum" or a["vis"] != "pub":
            continue
        meths = [b for b in ctx.facts.bodies if b.kind == "assoc_fn" and not b.impl_trait and b.impl_self and b.impl_self.get("name") == name]
        if not meths:
            continue
        for b in meths:
            res.count("C10.6 error accessors")
            rs = te.all_results(b, max_paths=12)
            probs = []
            for pr in rs:
                var = None
                for (d, ch, _bb) in pr.conds:
                    if isinstance(d, tuple) and d[0] == "discr":
                        var = ch
                s_ = show(pr.ret)
                vnames = [v["name"] for v in a["variants"]]
                if var is not None and isinstance(var, int) and var < len(vnames):
                    vn = vnames[var]
                    import re
                    used = set(re.findall(r"as (\w+)\)", s_))
                    if used and used != {vn}:
                        probs.append("on variant %s it reads %s" % (vn, sorted(used)))
                    want_k = "as %s).key" % vn
                    want_v = "as %s).value" % vn
                    outs = b.j["output"]["s"]
                    if ("key" in b.name or "entry" in b.name) and want_k not in s_:
                        probs.append("variant %s: key not returned" % vn)
                    if ("value" in b.name or "entry" in b.name) and want_v not in s_:
                        probs.append("variant %s: value not returned" % vn)
                    if "entry" in b.name and s_.find(want_k) > s_.find(want_v):
                        probs.append("variant %s: key and value swapped" % vn)
            uniq = sorted(set(probs))
            res.oblige("C10.6 `%s` returns the fields of the variant it is called on" % b.path, not uniq, detail=uniq, key="C10.6:%s" % b.path,
                       loc=span_str(b.span), rule="C10.6 error accessors", msg="`%s`: %s" % (b.path, "; ".join(uniq)))
    # 4. failure is a no-op structurally: between entry and every Err return of insert/try_insert no writer ran -- E3 'atomic' covers the
    #    numeric state and table identity; the list is covered by the may-promote ghost (C05) and by the absence of unlink calls:
    for nm in ("insert", "try_insert"):
        b = r.method(nm)
        if b is None:
            res.violate("C10:anchor-missing:%s" % nm, "pub fn %s not found" % nm, None, {}, "anchors")


def c11(ctx, res):
    r, cg, eff = ctx.roles, ctx.cg, ctx.eff
    b = r.method("mutate")
    if b is None:
        res.violate("C11:anchor-missing:mutate", "pub fn mutate not found", None, {}, "anchors")
        return
    g = cfg_of(b)
    te = _te(ctx, False)
    closure_calls = [c for c in cg.calls.get(b.path, []) if c.user_kind == "closure"]
    lookups = [c for c in cg.calls.get(b.path, []) if (c.target is not None and any(cls == "find" for (_p, (cls, _c)) in eff.trans(c.target)["table"]))
               or (c.model and c.model.get("table") == "find")]
    res.count("C11.1 closure call sites", len(closure_calls))
    ok = len(closure_calls) == 1 and len(lookups) >= 1
    why = []
    if ok:
        cc = closure_calls[0]
        lk = lookups[0]
        # the closure call is dominated by the Some edge of the lookup
        dest = lk.term["dest"]["l"]
        some_edge = None
        for bi, bl in enumerate(b.blocks):
            t = bl["term"]
            if t["k"] == "switch":
                dl = t["discr"].get("place", {}).get("l")
                if any(st["k"] == "assign" and st["place"]["l"] == dl and st["rv"]["k"] == "discr" and st["rv"]["place"]["l"] == dest for st in bl["stmts"]):
                    for (val, tb) in t["targets"]:
                        if val == 1:
                            some_edge = tb
        if some_edge is None or not g.dominates(some_edge, cc.bb):
            ok = False
            why.append("the closure call is not dominated by the `Some` edge of the lookup")
        # nothing with an effect precedes the closure
        for c in cg.calls.get(b.path, []):
            if c is cc or c.target is None:
                continue
            if g.dominates(c.bb, cc.bb) and c.bb != cc.bb:
                t = eff.trans(c.target)
                if t["w_cache"] or any(via for (_p, (f, _b, _s, via)) in t["w_entry"]) or any(cls in ("insert", "remove", "clear", "drain") for (_p, (cls, _c)) in t["table"]):
                    ok = False
                    why.append("`%s` (which has effects) runs before the closure" % c.target.path)
        # 2. the closure's result is what Ok(Some(_)) carries
        res_local = cc.term["dest"]["l"]
        fwd = False
        for p in te.paths(b, max_paths=40):
            pr = te.eval_path(b, p)
            s_ = show(pr.ret)
            if s_.startswith("std::result::Result{0: std::option::Option{0: "):
                inner = pr.ret[4][0][1][4][0][1] if pr.ret[0] == "agg" else None
                if inner is not None and inner[0] == "call" and "FnOnce" in inner[1]:
                    fwd = True
                else:
                    ok = False
                    why.append("Ok(Some(_)) carries `%s`, not the closure's result" % show(inner)[:80])
        if not fwd:
            ok = False
            why.append("no path returns Ok(Some(closure result))")
    else:
        why.append("%d closure call sites, %d lookups" % (len(closure_calls), len(lookups)))
    res.oblige("C11.1/2 mutate calls the closure once, only on the hit edge of the lookup and before any effect, and forwards its result in Ok(Some(_))",
               ok, detail=why, key="C11.1:closure-site", loc=span_str(b.span), rule="C11.1 closure site", msg="mutate: %s" % "; ".join(why))


# =====================================================================================================================
#  C07: structural clauses (seal lifecycle, cursor dereference guards, constructor detaches)
# =====================================================================================================================
def c07(ctx, res):
    r, cg, eff = ctx.roles, ctx.cg, ctx.eff
    te = _te(ctx, True)
    # 4. seal lifecycle: allocated by exactly one primitive whose result has both links = itself; that primitive is reached
    #    only from constructors; freed only from the cache's Drop (C06.4 checks the ordering)
    allocs = [b for b in ctx.facts.bodies if any(norm(c.resolved or c.nominal) == "std::boxed::Box::into_raw" for c in cg.calls.get(b.path, []))
              and b.j.get("output", {}).get("name") == r.eptr]
    res.floor("C07.4 seal allocators", len(allocs), 1)
    for b in allocs:
        res.count("C07.4 seal lifecycle")
        rs = te.all_results(b, max_paths=3)
        good = len(rs) == 1
        why = []
        if good:
            ret = show(rs[0].ret)
            st = [(show(p), show(v)) for (p, v, _bb) in rs[0].stores]
            for l in r.links:
                hit = [1 for (p, v) in st if p.endswith(".%s" % l) and v == ret]
                if not hit:
                    good = False
                    why.append("link `%s` of the fresh seal is not initialised to the seal itself" % l)
        else:
            why.append("%d paths" % len(rs))
        res.oblige("C07.4 `%s` returns a seal whose two links point to itself" % b.path, good, detail=why, key="C07.4:%s:self-linked" % b.path,
                   loc=span_str(b.span), rule="C07.4 seal lifecycle", msg="`%s`: %s" % (b.path, "; ".join(why)))
        callers = sorted(set(c.body.path for c in cg.callers_of(b.path)))
        okc = all(ctx.facts.body(p) is not None and (r.is_cache_ty(ctx.facts.body(p).j.get("output", {})) or p == b.path) for p in callers)
        res.oblige("C07.4 the seal allocator is called only by functions that build a cache", okc, detail=callers, key="C07.4:%s:callers" % b.path,
                   rule="C07.4 seal lifecycle", msg="seal allocator `%s` is called from %s" % (b.path, callers))
    # 5. cursor dereferences in the iterators are guarded by the null test of the exhaustion cursor: part of the cursor machine (C12.1):
    for (adt, eps) in cursor_adts(ctx):
        for (trait, m) in (("std::iter::Iterator", "next"), ("std::iter::DoubleEndedIterator", "next_back")):
            b = r.trait_method(trait, m, adt)
            if b is None:
                continue
            mc, why = best_cursor_machine(ctx, b, eps, m, res)
            res.count("C07.5 cursor dereference guards")
            ok = mc is not None and mc["E"] is not None and all(
                (ret == "None") or any(c_[0] == "isnull" and c_[2] is False for c_ in conds) for (conds, ret, stores) in mc["paths"])
            res.oblige("C07.5 `%s::%s` dereferences a cursor only after the exhaustion cursor tested non-null" % (adt, m), ok,
                       key="C07.5:%s:%s:unguarded-deref" % (adt, m), loc=span_str(b.span), rule="C07.5 guarded cursor dereference",
                       msg="`%s::%s` can dereference a null/seal cursor (%s)" % (adt, m, why or "a yielding path lacks the null test"))
    # constructors of &mut-holding copy-out iterators leave the list reset (shared with C17)
    c17(ctx, res)
    # 1. stale handles: a handle obtained from the cache's table before a call that may reallocate or empty that table must not be
    #    dereferenced afterwards
    check_stale_handles(ctx, res)


def check_stale_handles(ctx, res):
    """C07.1 is decided by E3: entries materialised from a table become 'stale' when an element is removed from / the table is drained,
    cleared or relocated, and a store through a handle to a stale entry is recorded (obligation `no-write-through-stale-handle` at every
    exit).  Reads of the link fields of a just-removed bucket (retain) are tolerated: removal leaves the bucket bytes in place."""
    res.note("C07.1 (stale handles) is decided by the E3 obligations `no-write-through-stale-handle`")
