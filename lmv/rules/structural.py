"""Structural (E1/E2/E4/E5) clauses of the behavioural properties; E3 clauses come from lmv/e3.py."""
from ..cfg import cfg_of
from ..facts import span_str
from ..models import norm

E3_FLOORS = {"C05": 30, "C07": 60, "C03": 6, "C10": 20, "C11": 8, "C13": 8, "C14": 4, "C16": 150, "C17": 1, "C12": 4}
