"""C14 (DESIGN.md 3/C14)."""
from .. import e3
from ..facts import span_str
from . import structural


def run(ctx, res):
    if not ctx.require_roles(res):
        return
    e3.apply(ctx, res, "C14", floor=structural.E3_FLOORS.get("C14"))
    fn = getattr(structural, "C14".lower(), None)
    if fn is not None:
        fn(ctx, res)
    # "equal": a lookup in the clone finds what the source finds -- the cloned entries must be filed under hashes built with the
    # clone's own hash builder (the C04.1 hash-agreement rules, restricted to what clone() reaches)
    from .. import core
    tmp = core.Result("C14")
    structural.c04(ctx, tmp, only_hash_agreement=True)
    b = ctx.roles.trait_method("std::clone::Clone", "clone")
    reach = set(ctx.cg.reach(b).keys()) if b is not None else set()
    for o in tmp.obligations:
        if any(("`%s`" % p) in o.get("name", "") for p in reach):
            res.count("C14 hash agreement in clone")
            res.obligations.append(o)
    for v in tmp.violations:
        if any(p in v.key for p in reach):
            res.violate(v.key, v.msg, v.loc, v.detail, v.rule)
