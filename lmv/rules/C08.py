"""C08 - size estimation is compositional, bulk helpers agree with it, and it is total (DESIGN.md 3/C08).
Also hosts the per-type specification shared with C09."""
from ..memsize import MemSizeAlgebra, head_of, Part
from ..terms import show, strip_refs, poly_terms, TooComplex, subterms, poly_of
from ..models import norm, model_of
from ..facts import span_str
from ..cfg import cfg_of
from ..probes import Probe, run_probes, MARK, ProbeError


# ------------------------------------------------------------------ projection paths from `self`
def self_path(t, root=("param", 1)):
    """canonical projection path of a term from the receiver, or None"""
    steps = []
    while True:
        if t == root:
            return canon_path(list(reversed(steps)))
        if not isinstance(t, tuple) or not t:
            return None
        k = t[0]
        if k in ("ref", "deref"):
            t = t[1]
        elif k == "field":
            steps.append("." + str(t[2]))
            t = t[1]
        elif k == "variant":
            steps.append("as " + str(t[2]))
            t = t[1]
        elif k == "index":
            steps.append("[..]")
            t = t[1]
        elif k == "call":
            if not t[2]:
                return None
            steps.append("call:" + norm(t[1]))
            t = t[2][0]
        else:
            return None


def canon_path(p):
    """the pointee of a Box is one step, however MIR spells it (`as_ref()`, `deref()`, or the elaborated `.0.pointer`)"""
    out = []
    i = 0
    while i < len(p):
        if p[i] == ".0" and i + 1 < len(p) and p[i + 1] == ".pointer":
            out.append("*box")
            i += 2
            continue
        if p[i].startswith("call:<std::boxed::Box<T> as std::convert::AsRef<T>>::as_ref") or \
                p[i].startswith("call:<std::boxed::Box<T> as std::ops::Deref>::deref"):
            out.append("*box")
            i += 1
            continue
        out.append(p[i])
        i += 1
    return out


ALL_ELEMS_ITERS = ("core::slice::<impl [T]>::iter", "std::collections::BinaryHeap::iter", "std::collections::HashSet::iter",
                   "std::vec::Vec::iter", "std::collections::VecDeque::iter", "<&'a [T] as std::iter::IntoIterator>::into_iter")
SLICE_VIEWS = ("call:std::vec::Vec::as_slice", "call:std::array::<impl std::ops::Index<std::ops::RangeFull> for [T; N]>::index",
               "call:<std::vec::Vec<T> as std::ops::Deref>::deref", "[..]", "call:core::array::<impl [T; N]>::as_slice",
               "call:std::array::<impl [T; N]>::as_slice")


def elems_source(src):
    """descriptor of an element iterator term: ('all', path) / ('keys'|'values', path) / None"""
    if not (isinstance(src, tuple) and src and src[0] == "call"):
        return None
    n = norm(src[1])
    if not src[2]:
        return None
    p = self_path(src[2][0])
    if p is None:
        return None
    if n in ALL_ELEMS_ITERS and all(s in SLICE_VIEWS for s in p):
        return ("all", p)
    if n == "std::collections::HashMap::keys" and p == []:
        return ("keys", p)
    if n == "std::collections::HashMap::values" and p == []:
        return ("values", p)
    return None


def type_params(self_ty):
    return [a.get("s") for a in self_ty.get("args", []) if a.get("k") not in ("region", "const")]


# ------------------------------------------------------------------ specification per std type (facts about std, frozen)
def expected_parts(self_ty, conds):
    """-> (list of expected part descriptors, description) or None if the type has no spec.
    descriptor: (kind, detail...) see match()."""
    h = head_of(self_ty)
    tp = type_params(self_ty) if self_ty.get("k") == "adt" else []
    variant = None
    for (d, chosen, _bb) in conds:
        if isinstance(d, tuple) and d[0] == "discr" and self_path(d[1]) == []:
            variant = chosen
    if h == "tuple":
        tys = [t["s"] for t in self_ty["tys"]]
        return [("PART", [".%d" % i], tys[i]) for i in range(len(tys))], "one part per tuple position"
    if h == "std::option::Option":
        if variant == 0:
            return [], "None owns nothing"
        if variant == 1:
            return [("PART", ["as Some", ".0"], tp[0])], "the Some payload"
        return None
    if h == "std::result::Result":
        if variant == 0:
            return [("PART", ["as Ok", ".0"], tp[0])], "the Ok payload"
        if variant == 1:
            return [("PART", ["as Err", ".0"], tp[1])], "the Err payload"
        return None
    if h == "std::ops::Range":
        return [("PART", [".start"], tp[0]), ("PART", [".end"], tp[0])], "start and end"
    if h == "std::ops::RangeFrom":
        return [("PART", [".start"], tp[0])], "start"
    if h in ("std::ops::RangeTo", "std::ops::RangeToInclusive"):
        return [("PART", [".end"], tp[0])], "end"
    if h == "std::ops::RangeInclusive":
        return [("PART", ["call:std::ops::RangeInclusive::start"], tp[0]), ("PART", ["call:std::ops::RangeInclusive::end"], tp[0])], "start() and end()"
    if h == "std::num::Wrapping":
        return [("PART", [".0"], tp[0])], "the wrapped value"
    if h == "std::boxed::Box":
        return [("MEM", "pointee", tp[0])], "the pointee's full mem_size (exact-fit allocation)"
    if h == "slice":
        return [("ELEM", "all", self_ty["ty"]["s"])], "every element"
    if h == "array":
        return [("ELEM", "all", self_ty["ty"]["s"])], "every element"
    if h in ("std::vec::Vec", "std::collections::BinaryHeap", "std::collections::VecDeque"):
        return [("ELEM", "all", tp[0]), ("BUF", "capacity*size_of", tp[0])], "elements + capacity x size_of::<T>()"
    if h == "std::collections::HashSet":
        return [("ELEM", "all", tp[0]), ("BUF", "capacity*size_of", tp[0]), ("PART", ["call:std::collections::HashSet::hasher"], tp[1])], \
            "elements + capacity x size_of::<T>() + hasher"
    if h == "std::collections::HashMap":
        return [("ELEM", "keys", tp[0]), ("ELEM", "values", tp[1]), ("BUF", "capacity*size_of", "(%s, %s)" % (tp[0], tp[1])),
                ("PART", ["call:std::collections::HashMap::hasher"], tp[2])], "keys + values + capacity x size_of::<(K,V)>() + hasher"
    if h in ("std::string::String", "std::ffi::OsString", "std::path::PathBuf"):
        return [("BUF", "capacity", None)], "the byte buffer's capacity"
    if h == "std::ffi::CString":
        return [("LEN", "std::ffi::CString::as_bytes_with_nul")], "the exact-fit buffer including the terminating NUL"
    if h == "std::sync::Mutex":
        return [("GUARD", "call:std::sync::Mutex::lock", tp[0])], "the protected value"
    if h == "std::sync::RwLock":
        return [("GUARD", "call:std::sync::RwLock::read", tp[0])], "the protected value"
    if h in ("ref", "refmut"):
        return [], "borrowed data is not owned: 0"
    if h in ("std::marker::PhantomData", "std::path::Path"):
        return [], "no owned heap data"
    return None


BUFFER_OWNERS = ("std::vec::Vec", "std::collections::BinaryHeap", "std::collections::VecDeque", "std::collections::HashSet",
                 "std::collections::HashMap", "std::string::String", "std::ffi::OsString", "std::path::PathBuf", "std::ffi::CString",
                 "std::boxed::Box")


def callee_self(alg, part):
    if part.raw is not None and isinstance(part.raw, tuple) and part.raw and part.raw[0] == "call":
        return alg.self_of(part.raw)
    return None


def match(alg, exp, parts):
    """match expected descriptors against classified parts; returns list of problem strings ('' = fine)"""
    problems = []
    used = [False] * len(parts)

    def take(pred):
        for i, p in enumerate(parts):
            if not used[i] and pred(p):
                used[i] = True
                return p
        return None

    for e in exp:
        kind = e[0]
        if kind == "PART":
            path, tyname = e[1], e[2]
            p = take(lambda p: p.kind == "PART" and self_path(p.on) == path)
            if p is None:
                problems.append("missing: heap_size of component %s" % "".join(path))
            else:
                if p.coef != 1:
                    problems.append("component %s is counted %d times" % ("".join(path), p.coef))
                cs = callee_self(alg, p)
                if tyname and cs and cs != tyname and cs.lstrip("&") != tyname:
                    problems.append("component %s is measured as `%s`, its type is `%s`" % ("".join(path), cs, tyname))
        elif kind == "ELEM":
            which, tyname = e[1], e[2]

            def pred(p, which=which):
                if p.kind != "ELEM":
                    return False
                if p.via == "slice-heap_size":
                    sp = self_path(p.on)
                    return which == "all" and sp is not None and all(s in SLICE_VIEWS for s in sp)
                src = elems_source(p.on)
                return src is not None and src[0] == which
            p = take(pred)
            if p is None:
                problems.append("missing: sum of heap_size over %s elements" % which)
            else:
                if p.coef != 1:
                    problems.append("element sum (%s) is counted %d times" % (which, p.coef))
                cs = callee_self(alg, p)
                if p.via != "slice-heap_size" and tyname and cs and cs != tyname:
                    problems.append("element sum (%s) uses `%s` but the elements have type `%s`" % (which, cs, tyname))
        elif kind == "BUF":
            form, elem = e[1], e[2]
            p = take(lambda p: p.kind == "BUF" and self_path(p.on) == [])
            if p is None:
                problems.append("missing: own buffer term (%s%s)" % (form, ("::<%s>" % elem) if elem else ""))
            else:
                if p.coef != 1:
                    problems.append("own buffer is counted %d times" % p.coef)
                if form == "capacity*size_of":
                    if p.what != "capacity*size_of":
                        problems.append("own buffer must be capacity() x size_of::<%s>(), found `%s`" % (elem, p.what))
                    elif p.via != elem:
                        problems.append("own buffer uses size_of::<%s>() but the stored element type is `%s`" % (p.via, elem))
                elif form == "capacity" and p.what != "capacity":
                    problems.append("own byte buffer must be capacity(), found `%s`" % p.what)
        elif kind == "MEM":
            p = take(lambda p: p.kind == "MEM")
            if p is None:
                problems.append("missing: mem_size of the pointee")
            else:
                sp = self_path(p.on)
                if sp != ["*box"]:
                    problems.append("mem_size is not taken on the pointee of self (%s)" % show(p.on))
                if p.coef != 1:
                    problems.append("pointee counted %d times" % p.coef)
        elif kind == "LEN":
            p = take(lambda p: p.kind == "LEN")
            if p is None:
                problems.append("missing: length of %s" % e[1])
            else:
                sp = self_path(p.on)
                if sp != ["call:" + e[1]]:
                    problems.append("length is taken of %s, expected %s(self)" % (show(p.on), e[1]))
        elif kind == "GUARD":
            p = take(lambda p: p.kind == "PART" and (self_path(p.on) or [None])[0] == e[1])
            if p is None:
                problems.append("missing: heap_size of the value behind %s" % e[1])
            elif p.coef != 1:
                problems.append("protected value counted %d times" % p.coef)
    for i, p in enumerate(parts):
        if not used[i]:
            if p.kind == "CONST" and p.coef == 0:
                continue
            problems.append("unexpected term %r" % p)
    return problems


# ------------------------------------------------------------------ the rule
def run(ctx, res):
    alg = MemSizeAlgebra(ctx)
    if not alg.tr.ok():
        res.violate("C08:anchor-missing:size-traits", "could not identify the three size traits by their methods", None, {}, "anchors")
        return
    H, V, M = alg.tr.HEAP, alg.tr.VALUE, alg.tr.MEM
    check_identity(ctx, res, alg)
    check_heap_impls(ctx, res, alg, want=("PART", "ELEM", "MEM", "GUARD", "CONST", "OTHER"), prop="C08")
    check_defaults(ctx, res, alg)
    check_overrides(ctx, res, alg)
    check_flat_iterator(ctx, res, alg)
    check_total(ctx, res, alg)
    res.trusted.append("frozen std facts in lmv/rules/C08.py::expected_parts (which accessor enumerates the parts of each std type)")
    res.assumptions.append("std iterators (slice::iter, HashMap::keys/values, ...) yield every element exactly once")


def check_identity(ctx, res, alg):
    """C08.1: mem_size = value_size + heap_size, unoverridable"""
    H, V, M = alg.tr.HEAP, alg.tr.VALUE, alg.tr.MEM
    impls = [i for i in ctx.facts.impls if i.get("trait") == M]
    res.count("C08.1 MemSize impls", len(impls))
    ok_blanket = len(impls) == 1 and impls[0]["self_ty"].get("k") == "param"
    res.oblige("C08.1 MemSize has exactly one (blanket) impl", ok_blanket, key="C08.1:memsize-not-blanket",
               msg="MemSize must be implemented only by the blanket impl over HeapSize + ValueSize (found %d impls)" % len(impls),
               rule="C08.1 identity")
    for b in ctx.facts.bodies:
        if b.impl_trait == M and b.name == "mem_size":
            rs = alg.results(b)
            good = len(rs) == 1
            if good:
                parts = sorted((c, tuple(show(a) for a in m)) for c, m in poly_terms(rs[0][1]))
                exp = sorted([(1, ("<T as %s>::value_size(p1)" % V,)), (1, ("<T as %s>::heap_size(p1)" % H,))])
                good = parts == exp
            res.oblige("C08.1 mem_size(self) = value_size(self) + heap_size(self)", good,
                       detail=show(rs[0][1]) if rs else None, key="C08.1:mem_size-term", loc=span_str(b.span), rule="C08.1 identity",
                       msg="mem_size is `%s`, expected value_size(self) + heap_size(self)" % (show(rs[0][1]) if rs else "?"))
            res.sample({"impl": b.path, "term": show(rs[0][1]) if rs else None})
    # blanket ValueSize for Sized: size_of::<Self>()
    for b in ctx.facts.bodies:
        if b.impl_trait == V and b.impl_self and b.impl_self.get("k") == "param":
            rs = alg.results(b)
            t = show(rs[0][1]) if len(rs) == 1 else None
            if b.name == "value_size":
                res.oblige("C08.1 Sized value_size = size_of::<Self>()", t == "std::mem::size_of::<T>()", detail=t,
                           key="C08.1:value_size-term", loc=span_str(b.span), rule="C08.1 identity",
                           msg="blanket value_size is `%s`, expected size_of::<T>()" % t)
            elif b.name == "value_size_sum_iter":
                good = t is not None and "std::mem::size_of::<T>()" in t and "::count(" in t and t.count("*") == 1 and "+" not in t
                res.oblige("C08.3 Sized value_size_sum_iter = size_of::<Self>() x count()", good, detail=t,
                           key="C08.3:value_size_sum_iter-term", loc=span_str(b.span), rule="C08.3 bulk",
                           msg="blanket value_size_sum_iter is `%s`, expected size_of::<T>() * iterator.count()" % t)
            elif b.name == "value_size_sum_exact_size_iter":
                good = t is not None and "std::mem::size_of::<T>()" in t and "::len(" in t and t.count("*") == 1 and "+" not in t
                res.oblige("C08.3 Sized value_size_sum_exact_size_iter = size_of::<Self>() x len()", good, detail=t,
                           key="C08.3:value_size_sum_exact-term", loc=span_str(b.span), rule="C08.3 bulk",
                           msg="blanket value_size_sum_exact_size_iter is `%s`, expected size_of::<T>() * iterator.len()" % t)
    # unsized ValueSize impls: size_of_val(self)
    for b in ctx.facts.bodies:
        if b.impl_trait == V and b.name == "value_size" and b.impl_self and b.impl_self.get("k") != "param":
            rs = alg.results(b)
            t = show(rs[0][1]) if len(rs) == 1 else None
            good = t is not None and t.startswith("std::mem::size_of_val::<") and t.endswith("(p1)")
            res.oblige("C08.1 value_size of unsized %s = size_of_val(self)" % b.impl_self["s"], good, detail=t,
                       key="C08.1:%s:value_size-term" % b.impl_self["s"], loc=span_str(b.span), rule="C08.1 identity",
                       msg="value_size of `%s` is `%s`, expected size_of_val(self)" % (b.impl_self["s"], t))
    # compile-fail witness: a direct impl of MemSize must conflict with the blanket impl
    pre = "#![allow(unused)]\nuse lru_mem::{HeapSize, MemSize};\nstruct Local(u8);\nimpl HeapSize for Local { fn heap_size(&self) -> usize { 0 } }\n"
    src = pre + "impl MemSize for Local { fn mem_size(&self) -> usize { 0 } } %s\n" % MARK
    twin = pre + "fn f(l: &Local) -> usize { l.mem_size() }\n"
    try:
        out = run_probes([Probe("memsize_override", src, {"E0119"}, twin, what="user types cannot override mem_size")], ctx.repo)
        for pr in out:
            res.count("C08.1 probes")
            res.oblige("probe %s: %s" % (pr["name"], pr["what"]), pr["ok"], detail=pr.get("why"), key="C08.1:probe:%s" % pr["name"],
                       rule="C08.1 compiler probe", msg="probe `%s` failed: %s" % (pr["name"], pr.get("why")))
    except ProbeError as e:
        res.violate("C08.1:probe-build-failed", str(e)[:300], None, {}, "C08.1 compiler probe")


def check_heap_impls(ctx, res, alg, want, prop):
    """C08.2 / C09: heap_size of every impl against the per-type specification"""
    H = alg.tr.HEAP
    n = 0
    specd = 0
    for b in ctx.facts.bodies:
        if not (b.impl_trait == H and b.name == "heap_size" and b.kind == "assoc_fn"):
            continue
        n += 1
        st = b.impl_self
        try:
            rs = alg.results(b)
        except TooComplex as e:
            res.violate("%s.2:%s:too-complex" % (prop, st["s"]), str(e), span_str(b.span), {}, "%s.2 parts" % prop)
            continue
        for (conds, ret, pr) in rs:
            parts = alg.classify(ret)
            spec = expected_parts(st, conds)
            data_conds = [(show(d), ch) for (d, ch, _bb) in conds if not (isinstance(d, tuple) and d[0] == "discr" and self_path(d[1]) == [])]
            if spec is None:
                # no std spec: must at least own nothing or be reported as a note
                if all(p.kind == "CONST" and p.coef == 0 for p in parts) or not parts:
                    res.count("%s.2 zero-heap types" % prop)
                    continue
                res.note("no specification for `%s`: heap_size = %s (recorded, not judged)" % (st["s"], show(ret)))
                continue
            specd += 1
            exp, desc = spec
            if prop == "C09":
                # C09 judges only the own-buffer clauses
                exp_f = [e for e in exp if e[0] in ("BUF", "LEN", "MEM")]
                probs = match_c09(alg, st, exp, parts)
            else:
                probs = match(alg, exp, parts)
            res.count("%s.2 heap_size paths judged" % prop)
            key = "%s.2:%s:%s" % (prop, st["s"], "|".join("%s=%s" % c for c in data_conds) or "all-paths")
            ok = not probs
            res.oblige("%s heap_size(%s)%s = %s" % (prop, st["s"], (" when " + str(data_conds)) if data_conds else "", desc), ok,
                       detail={"term": show(ret), "problems": probs}, key=key, loc=span_str(b.span), rule="%s.2 parts add up" % prop,
                       msg="heap_size of `%s`%s is `%s`; expected %s: %s" % (st["s"], (" on the path where %s" % data_conds) if data_conds else "",
                                                                            show(ret), desc, "; ".join(probs)))
            if len(res.samples) < 10 and st.get("k") == "adt":
                res.sample({"type": st["s"], "path_conditions": data_conds, "term": show(ret), "parts": [p.to_json() for p in parts]})
    res.floor("%s heap_size impls" % prop, n, 82)
    res.floor("%s heap_size impls with a std specification" % prop, specd, 34)


def match_c09(alg, st, exp, parts):
    """own-buffer clauses only: BUF / LEN / MEM descriptors must match, and no length-derived own-buffer term may occur"""
    probs = []
    sub = [e for e in exp if e[0] in ("BUF", "LEN", "MEM")]
    rel = [p for p in parts if p.kind in ("BUF", "LEN", "MEM", "LENBUF", "OTHER")]
    m = match(alg, sub, rel)
    probs += m
    return probs


def check_defaults(ctx, res, alg):
    """C08.3: the provided defaults are the element-wise definition"""
    H, V = alg.tr.HEAP, alg.tr.VALUE
    for b in ctx.facts.bodies:
        tdo = b.j.get("trait_default_of")
        if tdo not in (H, V):
            continue
        rs = alg.results(b)
        t = show(rs[0][1]) if len(rs) == 1 else None
        res.count("C08.3 provided defaults")
        single = "heap_size" if tdo == H else "value_size"
        if b.name in ("heap_size_sum_iter", "value_size_sum_iter"):
            good = t is not None and "::sum::<usize>(" in t and ("::map::<usize" in t) and ("<Self as %s>::%s" % (tdo, single)) in t
            if b.name == "heap_size_sum_iter":
                good = good and "<Fun as std::ops::Fn<()>>::call(&p1, ())" in t
            else:
                good = good and "(p1, " in t
            res.oblige("C08.3 default %s = iter.map(%s).sum()" % (b.name, single), good, detail=t, key="C08.3:default:%s" % b.name,
                       loc=span_str(b.span), rule="C08.3 bulk", msg="default `%s` is `%s`, expected the element-wise sum" % (b.name, t))
        elif b.name in ("heap_size_sum_exact_size_iter", "value_size_sum_exact_size_iter"):
            base = b.name.replace("_exact_size", "")
            good = t is not None and t.startswith("<Self as %s>::%s::<" % (tdo, base)) and t.endswith("(p1)")
            res.oblige("C08.3 default %s delegates to %s" % (b.name, base), good, detail=t, key="C08.3:default:%s" % b.name,
                       loc=span_str(b.span), rule="C08.3 bulk", msg="default `%s` is `%s`, expected a delegation to `%s`" % (b.name, t, base))


def lifted_closure(alg, clos):
    """for a closure value `|| make_iter().map(|item| proj(item))` return (make_iter_term, proj path of the inner closure) else None"""
    r = alg.closure_ret(clos)
    if r is None:
        return None
    return lifted_iter(alg, r)


def lifted_iter(alg, r):
    """term `Iterator::map(Fn::call(make_iter), closure2)` -> (make_iter term, projection path applied by closure2)"""
    if not (isinstance(r, tuple) and r[0] == "call" and norm(r[1]).endswith("std::iter::Iterator>::map") or
            (isinstance(r, tuple) and r[0] == "call" and "as std::iter::Iterator>::map" in r[1])):
        return None
    it, f = r[2][0], r[2][1]
    if not (isinstance(it, tuple) and it[0] == "call" and "as std::ops::Fn<()>>::call" in it[1]):
        return None
    mk = strip_refs(it[2][0])
    inner = None
    if isinstance(f, tuple) and f[0] == "closure":
        cb = alg.f.body(f[1])
        if cb is not None:
            ps = alg.te.paths(cb, max_paths=4)
            if len(ps) == 1:
                rr = alg.te.eval_path(cb, ps[0], [("ref", f), ("param", 2)]).ret
                inner = self_path(rr, root=("param", 2))
    elif isinstance(f, tuple) and f[0] == "fnref":
        # a named function instead of a closure: a crate-local projection fn, or a std accessor applied to the item
        fb = alg.f.body(norm(f[1])) or alg.f.body(f[1])
        if fb is not None:
            ps = alg.te.paths(fb, max_paths=4)
            if len(ps) == 1:
                rr = alg.te.eval_path(fb, ps[0], [("param", 2)]).ret
                inner = self_path(rr, root=("param", 2))
        else:
            inner = ["call:" + norm(f[1])]
    return (mk, inner)


def check_overrides(ctx, res, alg):
    """C08.3: every override of a bulk helper is the lifting of the impl's own heap_size"""
    H, V, M = alg.tr.HEAP, alg.tr.VALUE, alg.tr.MEM
    impls = alg.impl_methods(H)
    n_over = 0
    for sty, ms in impls.items():
        if sty == "<default>" or "heap_size" not in ms:
            continue
        hb = ms["heap_size"]
        for name in ("heap_size_sum_iter", "heap_size_sum_exact_size_iter"):
            ob = ms.get(name)
            if ob is None:
                continue
            n_over += 1
            res.count("C08.3 bulk overrides")
            hres = alg.results(hb)
            ores = alg.results(ob)
            key = "C08.3:%s:%s" % (sty, name)
            if len(hres) != 1 or len(ores) != 1:
                res.violate(key + ":branching", "cannot compare a branching heap_size/override for `%s`" % sty, span_str(ob.span), {}, "C08.3 bulk")
                continue
            hparts = alg.classify(hres[0][1])
            oparts = alg.classify(ores[0][1])
            probs = []
            # constant zero element-wise => constant zero bulk
            if all(p.kind == "CONST" for p in hparts):
                c = sum(p.coef for p in hparts)
                if c == 0:
                    if not all(p.kind == "CONST" and p.coef == 0 for p in oparts):
                        probs.append("element-wise heap_size is 0 but the bulk helper returns `%s`" % show(ores[0][1]))
                else:
                    probs.append("constant non-zero heap_size needs a count-based bulk helper (not supported by this rule)")
            else:
                exp = []   # list of (kind in {'H','V'}, type string, projection path)
                for p in hparts:
                    if p.kind == "PART":
                        exp.append(("H", alg.self_of(p.raw), self_path(p.on), p.coef))
                    elif p.kind == "MEM":
                        exp.append(("H", alg.self_of(p.raw), self_path(p.on), p.coef))
                        exp.append(("V", alg.self_of(p.raw), self_path(p.on), p.coef))
                    elif p.kind == "ELEM" and p.via == "slice-heap_size":
                        exp.append(("H", alg.self_of(p.raw), self_path(p.on), p.coef))
                    elif p.kind == "CONST" and p.coef == 0:
                        pass
                    else:
                        probs.append("element-wise part %r has no bulk form known to this rule" % p)
                got = []
                mk_seen = []
                for p in oparts:
                    if p.kind == "ELEM" and p.via in ("heap_size_sum_iter", "heap_size_sum_exact_size_iter"):
                        clos = p.raw[2][0] if p.raw[2] else None
                        li = lifted_closure(alg, clos)
                        if li is None:
                            # special: array exact-size goes through the flattening iterator
                            r = alg.closure_ret(clos)
                            if r is not None and r[0] == "agg" and r[2] and r[2].endswith("SizedArrayFlatIterator"):
                                fl = dict(r[4])
                                sub = fl.get("subsequent_sections")
                                okf = isinstance(sub, tuple) and sub[0] == "call" and "as std::ops::Fn<()>>::call" in sub[1]
                                cur = fl.get("current_section")
                                okc = isinstance(cur, tuple) and cur[0] == "call" and "Default" in cur[1]
                                if okf and okc:
                                    got.append(("H", alg.self_of(p.raw), ["FLAT"], p.coef))
                                    continue
                            probs.append("bulk term `%s` is not `T::sum(|| make_iter().map(|item| part(item)))`" % show(p.raw)[:160])
                            continue
                        mk, inner = li
                        if mk != ("param", 1):
                            probs.append("the iterator is not created from the make_iter argument inside the closure")
                        got.append(("H", alg.self_of(p.raw), inner, p.coef))
                    elif p.kind == "VSUM":
                        li = lifted_iter(alg, p.on)
                        if li is None:
                            probs.append("value-size bulk term `%s` is not taken over make_iter().map(part)" % show(p.raw)[:160])
                            continue
                        mk, inner = li
                        if mk != ("param", 1):
                            probs.append("the value-size iterator is not a fresh make_iter() call")
                        got.append(("V", alg.self_of(p.raw), inner, p.coef))
                    elif p.kind == "CONST" and p.coef == 0:
                        pass
                    else:
                        probs.append("unexpected bulk term %r" % p)

                def normp(path):
                    # element-wise `self[..]` on arrays corresponds to `&item[..]` or to the flattening iterator
                    return path
                e_sorted = sorted((k, t, tuple(pa or ["?"]), c) for (k, t, pa, c) in exp)
                g_sorted = sorted((k, t, tuple(pa or ["?"]), c) for (k, t, pa, c) in got)
                if e_sorted != g_sorted:
                    # tolerate FLAT for arrays: element type T summed over flattened elements == slice heap_size on [..]
                    flat_ok = (len(e_sorted) == 1 and len(g_sorted) == 1 and g_sorted[0][2] == ("FLAT",)
                               and e_sorted[0][0] == "H" and e_sorted[0][1].startswith("[") and g_sorted[0][1] == e_sorted[0][1].strip("[]"))
                    if not flat_ok:
                        probs.append("element-wise parts %s but bulk parts %s" % (e_sorted, g_sorted))
            res.oblige("C08.3 `%s` of %s is the lifting of its heap_size" % (name, sty), not probs,
                       detail={"heap_size": show(hres[0][1]), "bulk": show(ores[0][1])[:400], "problems": probs}, key=key,
                       loc=span_str(ob.span), rule="C08.3 bulk = lifted element-wise",
                       msg="`%s` for `%s` does not agree with its element-wise heap_size `%s`: %s" % (name, sty, show(hres[0][1]), "; ".join(probs)))
    res.floor("C08.3 bulk overrides", n_over, 120)


def check_flat_iterator(ctx, res, alg):
    """the flattening iterator used by [T; N]'s exact-size helper: size_hint = len(current) + len(subsequent) * N"""
    bs = [b for b in ctx.facts.bodies if b.impl_trait == "std::iter::Iterator" and b.impl_self and b.impl_self.get("local")
          and b.file.endswith("mem_size.rs")]
    for b in bs:
        if b.name == "size_hint":
            rs = alg.results(b)
            good = len(rs) == 1
            t = None
            if good:
                ret = rs[0][1]
                lo = alg.te.field_of(ret, "0", 0)
                hi = alg.te.field_of(ret, "1", 1)
                terms = sorted((c, tuple(sorted(show(a) for a in m))) for c, m in poly_terms(lo))
                t = show(lo)
                has_cur = any(len(m) == 1 and "ExactSizeIterator>::len(&*p1." in m[0] and "std::slice::Iter" in m[0] and c == 1 for c, m in terms)
                has_sub = any(len(m) == 2 and "N" in m and any("ExactSizeIterator>::len(&*p1." in x for x in m) and c == 1 for c, m in terms)
                good = has_cur and has_sub and len(terms) == 2
                hi_ok = isinstance(hi, tuple) and hi[0] == "agg" and hi[3] == "Some" and hi[4][0][1] == lo
                good = good and hi_ok
            res.count("C08.3 flattening iterator")
            res.oblige("C08.3 flattening iterator size_hint = len(current) + len(remaining sections) x N", good, detail=t,
                       key="C08.3:flat-iterator:size_hint", loc=span_str(b.span), rule="C08.3 flattening iterator",
                       msg="size_hint of the array-flattening iterator is `%s`; ExactSizeIterator::len rests on it" % t)
        if b.name == "next":
            # every Some comes from current_section.next(); current_section only ever assigned section.iter() of subsequent.next()
            te = alg.te
            good = True
            why = []
            try:
                paths = te.paths(b, max_paths=200)
            except TooComplex:
                paths = []
                good = False
                why.append("too many paths")
            for p in paths:
                r = te.eval_path(b, p)
                s = show(r.ret)
                if s.startswith("std::option::Option{") and "None" not in s and r.ret[0] == "agg" and r.ret[3] == "None":
                    pass
                if r.ret[0] == "agg" and r.ret[3] == "None":
                    # None only after subsequent_sections.next() returned None on this path
                    if not any("subsequent_sections" in show(d) and ch == 0 for (d, ch, _b) in r.conds):
                        good = False
                        why.append("returns None without the section iterator being exhausted")
                elif r.ret[0] == "call" and "FromResidual" in r.ret[1] and "Option" in r.ret[1]:
                    # `?` on subsequent_sections.next(): the None of the exhausted section iterator is passed on
                    if not any("subsequent_sections" in show(d) for (d, ch, _b) in r.conds):
                        good = False
                        why.append("returns None without the section iterator being exhausted")
                elif r.ret[0] == "agg" and r.ret[3] == "Some":
                    # Some(item) rebuilt from the item current_section.next() produced
                    if "current_section" not in s or "::next" not in s:
                        good = False
                        why.append("yields `%s`" % s[:100])
                elif r.ret[0] == "call":
                    if "std::slice::Iter" not in r.ret[1] or "::next" not in r.ret[1]:
                        good = False
                        why.append("yields `%s`" % s[:100])
                for (pt, val, _bb) in r.stores:
                    ps = show(pt)
                    if "current_section" in ps:
                        vs = show(val)
                        if not ("::iter(" in vs and "subsequent_sections" in vs):
                            good = False
                            why.append("current_section assigned `%s`" % vs[:100])
            res.count("C08.3 flattening iterator")
            res.oblige("C08.3 flattening iterator yields exactly the elements of each section in turn", good, detail=why,
                       key="C08.3:flat-iterator:next", loc=span_str(b.span), rule="C08.3 flattening iterator",
                       msg="array-flattening iterator `next`: %s" % "; ".join(sorted(set(why))))


def check_total(ctx, res, alg):
    """C08.4: no same-instantiation recursion, no panic-capable callee on size-estimation paths"""
    H, V, M = alg.tr.HEAP, alg.tr.VALUE, alg.tr.MEM
    cg = ctx.cg
    roots = [b for b in ctx.facts.bodies if (b.impl_trait in (H, V, M) or b.j.get("trait_default_of") in (H, V, M))]
    reach = {}
    work = list(roots)
    seen_adts = set()
    from ..callgraph import ty_local_adts
    while work:
        b = work.pop()
        for p, body in cg.reach(b, include_drops=False).items():
            if p in reach:
                continue
            reach[p] = body
            # helper types (e.g. the array-flattening iterator) handed to generic size functions: their impls run too
            for c in cg.calls.get(p, []):
                if not c.fn:
                    continue
                adts = set()
                for a in c.fn.get("args", []):
                    ty_local_adts(a, adts)
                for a in adts - seen_adts:
                    seen_adts.add(a)
                    work.extend(cg._impl_methods.get(a, []))
    res.count("C08.4 bodies on size-estimation paths", len(reach))
    # (a) identical-instantiation call cycles
    edges = {}
    for p, body in reach.items():
        for c in cg.calls.get(p, []):
            if c.target is None or c.target.path not in reach:
                continue
            r = c.fn.get("resolved")
            args = (r or {}).get("args") if isinstance(r, dict) else c.fn.get("args")
            gens = [g["name"] for g in c.target.j.get("generics", []) if g["kind"] in ("type", "const")]
            actual = [a.get("s") if a.get("k") != "param" else a.get("name") for a in (args or []) if a.get("k") != "region"]
            same = (actual == gens)
            if same:
                edges.setdefault(p, set()).add(c.target.path)
    # cycle detection
    color = {}
    cyc = []

    def dfs(u, stack):
        color[u] = 1
        for v in edges.get(u, ()):
            if color.get(v) == 1:
                cyc.append(stack[stack.index(v):] + [v] if v in stack else [u, v])
            elif v not in color:
                dfs(v, stack + [v])
        color[u] = 2
    for u in list(edges):
        if u not in color:
            dfs(u, [u])
    for c in cyc:
        b = reach[c[0]]
        res.violate("C08.4a:recursion:%s" % "->".join(c), "size estimation recurses with identical type arguments (%s): depth is bounded only by "
                    "the data, the stack can be exhausted" % " -> ".join(c), span_str(b.span), {"cycle": c}, "C08.4 totality")
    res.oblige("C08.4a no same-instantiation recursion on size-estimation paths", not cyc, key="C08.4a:recursion") if not cyc else None
    # also loops inside the flattening iterator are fine (iteration, not recursion)
    # (b) panic-capable callees
    n = 0
    for p, body in reach.items():
        for c in cg.calls.get(p, []):
            if not c.external:
                continue
            n += 1
            m = c.model
            nm = norm(c.resolved or c.nominal)
            if m is not None and m.get("panics"):
                res.violate("C08.4b:%s:panicking-callee:%s" % (p, nm), "`%s` calls `%s`, which panics (%s): size estimation must be total"
                            % (p, nm, m["why"]), c.loc, {}, "C08.4 totality")
            elif m is None and not (c.trait and c.user_kind) and not _benign_unmodelled(nm):
                res.violate("C08.4b:%s:unmodelled:%s" % (p, nm), "`%s` calls `%s`, which has no model (may panic): add it to lmv/models.py after "
                            "reading it" % (p, nm), c.loc, {}, "C08.4 totality")
        for bi, bl in enumerate(body.blocks):
            t = bl["term"]
            if t["k"] == "assert" and t["msg"] not in ("overflow",):
                res.violate("C08.4b:%s:assert:%s" % (p, t["msg"]), "`%s` contains a `%s` check that can panic" % (p, t["msg"]),
                            span_str(t["span"]), {}, "C08.4 totality")
    res.count("C08.4 external callees checked", n)


def _benign_unmodelled(nm):
    ok = ("std::iter::Iterator", "as std::iter::Iterator>::", "as std::iter::ExactSizeIterator>::", "std::ops::Deref>::deref", "std::convert::AsRef",
          "std::ops::Index<std::ops::RangeFull>", "std::default::Default>::default", "std::iter::IntoIterator", "std::ops::Fn", "std::iter::Sum",
          "std::ops::DerefMut>::deref_mut")
    return any(x in nm for x in ok)
