"""C09 - heap_size matches what the allocator holds for owned buffers (DESIGN.md 3/C09; structural clause only)."""
from ..memsize import MemSizeAlgebra
from .C08 import check_heap_impls, BUFFER_OWNERS


def run(ctx, res):
    alg = MemSizeAlgebra(ctx)
    if not alg.tr.ok():
        res.violate("C09:anchor-missing:size-traits", "could not identify the three size traits by their methods", None, {}, "anchors")
        return
    check_heap_impls(ctx, res, alg, want=("BUF", "LEN", "MEM"), prop="C09")
    # a container sums its elements through the bulk helpers: an override that disagrees with the element-wise heap_size of a buffer
    # owner (e.g. String summing lengths) loses the reserved capacity of nested values
    from .C08 import check_overrides, check_defaults
    check_defaults(ctx, res, alg)
    check_overrides(ctx, res, alg)
    res.trusted.append("std documentation: allocation size of String/OsString/PathBuf/Vec/BinaryHeap = capacity() [x size_of::<T>()], "
                       "HashMap/HashSet >= capacity() x size_of entry, Box/CString exact fit")
    res.assumptions.append("allocator rounding and hash-table control bytes are not modelled (HashMap/HashSet are lower bounds by the property's wording)")
