"""C06 - every key and value is dropped or handed back exactly once (DESIGN.md 3/C06)."""
from . import structural


def run(ctx, res):
    if not ctx.require_roles(res):
        return
    structural.c06(ctx, res)
    # an owning iterator that yields an entry twice (or keeps yielding after exhaustion) hands the same key and value out twice: the
    # two-cursor step rules of C12, for the iterator types that copy entries out only
    structural.c12(ctx, res, with_drops=False, only=set(structural.copy_out_adts(ctx)))
    # an entry that evicts itself / a duplicate that is evicted before it is replaced ends up dropped twice through the
    # stale list node: the ordering obligations of C03 are necessary conditions of exactly-once as well
    from .. import e3
    d = e3.run(ctx)
    for rec in d["records"]:
        if rec["prop"] == "C03" and ("before-eviction" in rec["key"]):
            res.count("C06 E3 obligations")
            res.oblige(rec["desc"], rec["ok"], detail=rec.get("detail"), key="C06.E3:%s" % rec["key"], loc=rec["loc"],
                       rule="E3 abstract interpretation", msg="not proved: %s" % rec["desc"])
        # a link that dangles into a freed table after an unwind makes every later drop or hand-back read freed entries
        if rec["prop"] == "C16" and (rec["key"].endswith(":no-link-into-unowned-table") or rec["key"].endswith(":table-not-detached")):
            res.count("C06 E3 obligations")
            res.oblige(rec["desc"], rec["ok"], detail=rec.get("detail"), key="C06.E3:%s" % rec["key"], loc=rec["loc"],
                       rule="E3 abstract interpretation", msg="not proved: %s" % rec["desc"])
        if rec["prop"] == "E3":
            res.violate("E3:" + rec["key"], rec["desc"], rec["loc"], {}, "E3 abstract interpreter")
    res.trusted.append("rustc's move checker (at most one move of every owned value); lmv/models.py")
    res.assumptions.append("unwind paths may leak (allowed by the property); K/V Drop impls are not analysed")
