"""C02 - size accounting is exact (DESIGN.md 3/C02)."""
from .. import e3
from ..facts import span_str
from ..terms import TermEval, show, poly_terms
from ..memsize import MemSizeAlgebra


def run(ctx, res):
    if not ctx.require_roles(res):
        return
    r = ctx.roles
    e3.apply(ctx, res, "C02", floor=120)
    # (c) entry_size(k, v) = heap_size(k) + heap_size(v) + size_of::<Entry<K,V>>()   [term check]
    alg = MemSizeAlgebra(ctx)
    b = None
    for x in ctx.facts.bodies:
        if x.kind == "fn" and x.vis == "pub" and x.name == "entry_size":
            b = x
    if b is None:
        res.violate("C02.c:anchor-missing:entry_size", "pub fn entry_size not found", None, {}, "anchors")
    else:
        rs = alg.results(b)
        good = len(rs) == 1
        t = show(rs[0][1]) if rs else None
        if good:
            terms = sorted((c, tuple(show(a) for a in m)) for c, m in poly_terms(rs[0][1]))
            H = alg.tr.HEAP
            exp = sorted([(1, ("<K as %s>::heap_size(p1)" % H,)), (1, ("<V as %s>::heap_size(p2)" % H,)),
                          (1, ("std::mem::size_of::<%s<K, V>>()" % r.entry,))])
            good = terms == exp
        res.count("C02.c term checks")
        res.oblige("C02.c entry_size(k, v) = heap_size(k) + heap_size(v) + size_of::<Entry<K, V>>()", good, detail=t,
                   key="C02.c:entry_size-term", loc=span_str(b.span), rule="C02.c entry_size term",
                   msg="entry_size is `%s`" % t)
    # (b) current_size = 0 <=> empty: follows from (a) and E.SIZE >= size_of::<Entry>() > 0; the entry type is not zero-sized
    ea = ctx.facts.adts[r.entry]
    nonzero = any(f["ty"].get("k") == "prim" and f["ty"]["s"] == "usize" for f in ea["variants"][0]["fields"])
    res.oblige("C02.b the entry type contains a usize field (size_of::<Entry>() > 0, so every recorded size is positive)", nonzero,
               key="C02.b:entry-zero-sized", rule="C02.b")
    res.assumptions.append("A-clone: a clone of a key/value reports the same heap_size as the original (needed for clone(): C14 demands the "
                           "same current_size, C02 demands the sum of entry_size)")
    res.assumptions.append("keys and values change their size only inside mutate (stated by the property)")
