"""E2: def-use provenance terms.

For a loop-free region of a MIR body, every normal path from the entry to a `return` is evaluated by forward
substitution into *terms* (nested tuples):
   ('param', i)  ('const', v)  ('unit',)  ('unknown', tag)
   ('field', t, name)  ('deref', t)  ('ref', t)  ('variant', t, name)  ('index', t)
   ('call', callee_full, (args...))        results of calls (external, user, or non-inlined local)
   ('agg', kind, name, variant, ((fname, t), ...))    struct / tuple / enum values built in the body
   ('closure', def, (upvars...))
   ('poly', ((monomial, coef), ...))       integer arithmetic, normalised to a polynomial over atom terms
   ('cmp', op, a, b) ('not', t) ('discr', t) ('cast', t, ty)
Nothing is executed and no condition is solved: a path is a list of blocks, a path condition is the list of
(term, chosen switch value) pairs met on the way.
"""
from .cfg import cfg_of
from .facts import span_str

MAX_PATHS = 4000


class TooComplex(Exception):
    pass


# ----------------------------------------------------------------- polynomials
def is_poly(t):
    return isinstance(t, tuple) and t and t[0] == "poly"


def poly_of(t):
    """term -> dict monomial(tuple of atoms) -> int coef"""
    if is_poly(t):
        return dict(t[1])
    if isinstance(t, tuple) and t[0] == "const" and isinstance(t[1], int):
        return {(): t[1]} if t[1] != 0 else {}
    return {(t,): 1}


def mk_poly(d):
    d = {m: c for m, c in d.items() if c != 0}
    if not d:
        return ("const", 0)
    if len(d) == 1:
        (m, c), = d.items()
        if m == ():
            return ("const", c)
        if c == 1 and len(m) == 1:
            return m[0]
    return ("poly", tuple(sorted(d.items(), key=lambda kv: repr(kv))))


def p_add(a, b, sign=1):
    d = poly_of(a)
    for m, c in poly_of(b).items():
        d[m] = d.get(m, 0) + sign * c
    return mk_poly(d)


def p_mul(a, b):
    da, db = poly_of(a), poly_of(b)
    d = {}
    for m1, c1 in da.items():
        for m2, c2 in db.items():
            m = tuple(sorted(m1 + m2, key=repr))
            d[m] = d.get(m, 0) + c1 * c2
    return mk_poly(d)


def poly_atoms(t):
    out = []
    for m, c in poly_of(t).items():
        for a in m:
            out.append(a)
    return out


def poly_terms(t):
    """list of (coef, monomial tuple)"""
    return [(c, m) for m, c in poly_of(t).items()]


# ----------------------------------------------------------------- helpers on terms
def simp_ref(t):
    # &*x = x ; *&x = x
    if t[0] == "ref" and t[1][0] == "deref":
        return t[1][1]
    if t[0] == "deref" and t[1][0] == "ref":
        return t[1][1]
    return t


def strip_refs(t):
    """remove ref/deref wrappers: identifies a value with references to it (good enough for provenance)"""
    while isinstance(t, tuple) and t and t[0] in ("ref", "deref"):
        t = t[1]
    return t


def subterms(t):
    yield t
    if isinstance(t, tuple):
        for x in t[1:]:
            if isinstance(x, tuple):
                if x and isinstance(x[0], str):
                    yield from subterms(x)
                else:
                    for y in x:
                        if isinstance(y, tuple):
                            yield from subterms(y)


def calls_in(t):
    return [x for x in subterms(t) if isinstance(x, tuple) and x and x[0] == "call"]


def show(t, depth=0):
    if not isinstance(t, tuple) or not t:
        return repr(t)
    k = t[0]
    if depth > 12:
        return "..."
    if k == "param":
        return "p%d" % t[1]
    if k == "const":
        return str(t[1])
    if k == "unit":
        return "()"
    if k == "unknown":
        return "?%s" % (t[1],)
    if k == "field":
        return "%s.%s" % (show(t[1], depth + 1), t[2])
    if k == "deref":
        return "*%s" % show(t[1], depth + 1)
    if k == "ref":
        return "&%s" % show(t[1], depth + 1)
    if k == "variant":
        return "(%s as %s)" % (show(t[1], depth + 1), t[2])
    if k == "call":
        return "%s(%s)" % (t[1], ", ".join(show(a, depth + 1) for a in t[2]))
    if k == "agg":
        return "%s{%s}" % (t[2] if t[2] else t[1], ", ".join("%s: %s" % (n, show(v, depth + 1)) for n, v in t[4]))
    if k == "closure":
        return "closure %s[%s]" % (t[1], ", ".join(show(a, depth + 1) for a in t[2]))
    if k == "poly":
        parts = []
        for m, c in t[1]:
            ms = "*".join(show(a, depth + 1) for a in m) or "1"
            parts.append(("%d*%s" % (c, ms)) if c != 1 or not m else ms)
        return "(" + " + ".join(parts) + ")"
    if k == "cmp":
        return "(%s %s %s)" % (show(t[2], depth + 1), t[1], show(t[3], depth + 1))
    if k == "not":
        return "!%s" % show(t[1], depth + 1)
    if k == "discr":
        return "discr(%s)" % show(t[1], depth + 1)
    if k == "cast":
        return "(%s as %s)" % (show(t[1], depth + 1), t[2])
    return str(t)


# ----------------------------------------------------------------- evaluation
class PathResult:
    __slots__ = ("blocks", "ret", "conds", "stores", "calls", "env", "drops", "infeasible")

    def __init__(self):
        self.infeasible = False
        self.blocks = []
        self.ret = None
        self.conds = []     # (term, value | 'otherwise', bb)
        self.stores = []    # (place term, value term, bb)  writes through pointers
        self.calls = []     # (bb, callee_full, args terms, result term, Call-like info dict)
        self.drops = []     # (bb, place term, type string)
        self.env = None


def _subst_generics(term, callee, fn):
    """the callee's body is generic: names of its own type parameters inside call paths (`size_of::<T>`) are replaced by the type
    arguments of this call (only the callee's own, non-parent generics: the trailing ones of the argument list)"""
    import re
    gens = [g["name"] for g in (callee.j.get("generics") or []) if g.get("kind") == "type"]
    r_ = fn.get("resolved") if isinstance(fn.get("resolved"), dict) else fn
    args = [a for a in (r_.get("args") or fn.get("args") or []) if a.get("k") not in ("region", "const")]
    if not gens or len(args) < len(gens):
        return term
    args = args[len(args) - len(gens):]
    mp = {g: a.get("s", g) for g, a in zip(gens, args) if a.get("s") and a.get("s") != g}
    if not mp:
        return term
    pat = re.compile(r"(?<![A-Za-z0-9_])(%s)(?![A-Za-z0-9_])" % "|".join(re.escape(g) for g in mp))

    def rec(t):
        if isinstance(t, tuple):
            if t and t[0] == "call" and isinstance(t[1], str):
                return ("call", pat.sub(lambda m: mp[m.group(1)], t[1])) + tuple(rec(x) for x in t[2:])
            return tuple(rec(x) for x in t)
        return t
    return rec(term)


_PTR_RW_RE = None


def _ptr_rw_kind(full):
    """'read' / 'write' for the std raw-pointer read and write primitives (free functions and methods, any instantiation), else None"""
    global _PTR_RW_RE
    import re
    if _PTR_RW_RE is None:
        _PTR_RW_RE = re.compile(r"^(?:std|core)::ptr::(?:(?:mut_ptr|const_ptr)::<impl \*(?:mut|const) .*>::)?(read|write)(?:_unaligned|_volatile)?(?:::<.*>)?$")
    m = _PTR_RW_RE.match(full or "")
    return m.group(1) if m else None


def _has_deref(t):
    while isinstance(t, tuple) and t and t[0] in ("field", "deref", "variant", "index", "proj"):
        if t[0] == "deref":
            return True
        t = t[1]
    return False


class TermEval:
    def __init__(self, facts, cg=None, inline=True, inline_depth=4):
        self.facts = facts
        self.cg = cg
        self.inline = inline
        self.inline_depth = inline_depth
        self._ctr = 0
        self._inl_cache = {}
        self.no_inline = set()      # def paths that stay call terms even when inlining (named primitives a rule looks for)
        self.inline_stores = False  # also inline single-path callees that store (their stores join the caller's, in caller terms)

    def fresh(self, tag):
        self._ctr += 1
        return ("unknown", "%s#%d" % (tag, self._ctr))

    # ---- paths
    def paths(self, body, start=0, stop_blocks=None, max_paths=MAX_PATHS, loop_once=True, max_visits=1):
        """acyclic normal paths from `start` to return blocks (or to a block in stop_blocks).
        A back edge is followed at most zero times (loop bodies are entered once, then the path must leave)."""
        g = cfg_of(body)
        out = []
        stop_blocks = set(stop_blocks or ())

        def rec(bb, path, cnt):
            if len(out) > max_paths:
                raise TooComplex("%s: more than %d paths" % (body.path, max_paths))
            path = path + [bb]
            t = body.blocks[bb]["term"]
            if t["k"] == "return" or bb in stop_blocks:
                out.append(path)
                return
            succs = g.nsucc[bb]
            if not succs:
                return  # diverges (panic / unreachable)
            for s in succs:
                if cnt.get(s, 0) >= max_visits:
                    continue
                c2 = dict(cnt)
                c2[s] = c2.get(s, 0) + 1
                rec(s, path, c2)

        rec(start, [], {start: 1})
        return out

    # ---- place / operand evaluation
    def place_term(self, env, pl, body):
        t = env.get(pl["l"])
        if t is None:
            t = ("unknown", "uninit_%s_%d" % (body.path, pl["l"]))
        for e in pl["p"]:
            k = e["k"]
            if k == "deref":
                t = simp_ref(("deref", t))
            elif k == "field":
                name = e.get("n") if e.get("n") is not None else str(e["i"])
                t = self.field_of(t, name, e["i"])
            elif k == "downcast":
                t = self.variant_of(t, e.get("n") or str(e["v"]))
            elif k in ("index", "constindex", "subslice"):
                t = ("index", t, k)
            else:
                t = ("proj", t, k)
        return t

    def field_of(self, t, name, idx=None):
        if t[0] == "agg":
            for (n, v) in t[4]:
                if n == name or (idx is not None and n == str(idx)):
                    return v
        if t[0] == "closure" and idx is not None and idx < len(t[2]):
            return t[2][idx]
        if t[0] == "ovf":  # (value, flag) pair of a checked op
            return t[1] if name in ("0",) else ("unknown", "ovf_flag")
        return ("field", t, name)

    def variant_of(self, t, name):
        if t[0] == "agg" and t[3] == name:
            return t
        return ("variant", t, name)

    def operand(self, env, op, body):
        if op["k"] in ("copy", "move"):
            return self.place_term(env, op["place"], body)
        if op["k"] == "const":
            c = op["c"]
            if "int" in c:
                return ("const", c["int"])
            if isinstance(c.get("enum_const"), dict):
                # a promoted `&Enum::Variant` constant
                ec = c["enum_const"]
                return ("ref", ("agg", "adt", ec.get("adt"), ec.get("variant"), ()))
            if "fn" in c:
                return ("fnref", c["fn"]["full"])
            if c.get("ty") == "()":
                return ("unit",)
            return ("const", c.get("s"))
        return self.fresh("op")

    def rvalue(self, env, rv, body):
        k = rv["k"]
        if k == "use":
            return self.operand(env, rv["op"], body)
        if k in ("ref", "rawptr"):
            return simp_ref(("ref", self.place_term(env, rv["place"], body)))
        if k == "copyforderef":
            return self.place_term(env, rv["place"], body)
        if k == "cast":
            inner = self.operand(env, rv["op"], body)
            kind = rv["kind"]
            if "PtrToPtr" in kind or "Unsize" in kind or "MutToConst" in kind or "Transmute" in kind or "PointerCoercion" in kind:
                return inner    # pointer casts keep the target
            return ("cast", inner, rv["ty"]["s"])
        if k == "binop":
            a = self.operand(env, rv["a"], body)
            b = self.operand(env, rv["b"], body)
            op = rv["op"]
            base = op.replace("WithOverflow", "").replace("Unchecked", "")
            if base == "Add":
                r = p_add(a, b)
            elif base == "Sub":
                r = p_add(a, b, -1)
            elif base == "Mul":
                r = p_mul(a, b)
            elif base in ("Eq", "Ne", "Lt", "Le", "Gt", "Ge"):
                return ("cmp", base, a, b)
            else:
                r = ("bin", base, a, b)
            if "WithOverflow" in op:
                return ("ovf", r)
            return r
        if k == "unop":
            a = self.operand(env, rv["a"], body)
            if rv["op"] == "Not":
                return ("not", a)
            if rv["op"] == "PtrMetadata":
                return ("call", "len", (strip_refs(a),))
            return ("un", rv["op"], a)
        if k == "discr":
            return ("discr", self.place_term(env, rv["place"], body))
        if k == "aggregate":
            ops = [self.operand(env, o, body) for o in rv["ops"]]
            a = rv["agg"]
            if a == "adt":
                names = rv["fields"]
                # S { f1: x.f1, .., fn: x.fn } rebuilt from all fields of one value of a struct is that value
                if ops and len(ops) == len(names) and all(isinstance(o, tuple) and o and o[0] == "field" and o[2] == names[i]
                                                          for i, o in enumerate(ops)):
                    bases = set(show(o[1]) for o in ops)
                    if len(bases) == 1 and not any(k.get("kind") == "enum" and n_ == rv["name"] for n_, k in self.facts.adts.items()):
                        return ops[0][1]
                return ("agg", "adt", rv["name"], rv["vname"], tuple((names[i] if i < len(names) else str(i), ops[i]) for i in range(len(ops))))
            if a == "tuple":
                if not ops:
                    return ("unit",)
                return ("agg", "tuple", None, None, tuple((str(i), ops[i]) for i in range(len(ops))))
            if a == "closure":
                return ("closure", rv["def"], tuple(ops))
            return ("agg", a, None, None, tuple((str(i), ops[i]) for i in range(len(ops))))
        return self.fresh("rv_" + k)

    def assign(self, env, pl, val, body, res, bb):
        if not pl["p"]:
            env[pl["l"]] = val
            return
        if any(e["k"] == "deref" for e in pl["p"]):
            res.stores.append((self.place_term(env, pl, body), val, bb))
            return
        # field update of a local aggregate
        base = env.get(pl["l"])
        path = []
        for e in pl["p"]:
            if e["k"] == "field":
                path.append(("f", e.get("n") if e.get("n") is not None else str(e["i"]), e["i"]))
            elif e["k"] == "downcast":
                path.append(("v", e.get("n")))
            else:
                path.append(("x",))
        env[pl["l"]] = self._update(base if base is not None else ("unknown", "uninit"), path, val)

    def _update(self, base, path, val):
        if not path:
            return val
        h = path[0]
        if h[0] == "f":
            if base[0] == "agg":
                flds = list(base[4])
                done = False
                for i, (n, v) in enumerate(flds):
                    if n == h[1] or n == str(h[2]):
                        flds[i] = (n, self._update(v, path[1:], val))
                        done = True
                if not done:
                    flds.append((h[1], self._update(("unknown", "f"), path[1:], val)))
                return ("agg", base[1], base[2], base[3], tuple(flds))
            # unknown base: remember override as an 'agg' over the base
            return ("agg", "upd", None, None, ((h[1], self._update(("field", base, h[1]), path[1:], val)), ("..", base)))
        if h[0] == "v":
            return self._update(base, path[1:], val)
        return ("unknown", "upd")

    # ---- path evaluation
    def eval_path(self, body, path, args=None, depth=0):
        env = {}
        for i in range(1, body.arg_count + 1):
            env[i] = args[i - 1] if args else ("param", i)
        res = PathResult()
        res.blocks = path
        calls = {c.bb: c for c in (self.cg.calls.get(body.path, []) if self.cg else [])}
        for idx, bb in enumerate(path):
            bl = body.blocks[bb]
            for st in bl["stmts"]:
                if st["k"] == "assign":
                    val = self.rvalue(env, st["rv"], body)
                    self.assign(env, st["place"], val, body, res, bb)
            t = bl["term"]
            nxt = path[idx + 1] if idx + 1 < len(path) else None
            k = t["k"]
            if k == "switch":
                d = self.operand(env, t["discr"], body)
                chosen = "otherwise"
                for (v, tb) in t["targets"]:
                    if tb == nxt:
                        chosen = v
                        break
                # the very same computed value (a local copied around, e.g. the bool a helper returned) tested twice cannot come out
                # differently: such paths are infeasible (identity of the term object = no re-evaluation in between)
                for (d0_, ch0_, _b0) in res.conds:
                    if d0_ is d and ch0_ != chosen and isinstance(d, tuple) and d and d[0] in ("cmp", "not", "call"):
                        res.infeasible = True
                res.conds.append((d, chosen, bb))
                # a test on a constant (typically a constant argument of an inlined helper) decides the branch: other paths are infeasible
                cv = self._const_discr(d)
                if cv is not None:
                    real = t["otherwise"]
                    for (v, tb) in t["targets"]:
                        if v == cv:
                            real = tb
                            break
                    if nxt is not None and nxt != real:
                        res.infeasible = True
            elif k == "call":
                argt = tuple(self.operand(env, a, body) for a in t["args"])
                c = calls.get(bb)
                fn = t["func"].get("c", {}).get("fn") if t["func"]["k"] == "const" else None
                full = None
                if fn:
                    r = fn.get("resolved")
                    full = r["full"] if isinstance(r, dict) else fn["full"]
                else:
                    full = "<indirect:%s>" % (self.operand(env, t["func"], body),)
                # one spelling for "the address of an initialised slot": `slot.as_ptr()` / `slot.as_mut_ptr()` designate what
                # `slot.assume_init_ref()` / `slot.assume_init_mut()` designate (terms do not distinguish pointers from references)
                if full.startswith("std::mem::MaybeUninit::<") and full.endswith(">::as_ptr"):
                    full = full[:-len("as_ptr")] + "assume_init_ref"
                elif full.startswith("std::mem::MaybeUninit::<") and full.endswith(">::as_mut_ptr"):
                    full = full[:-len("as_mut_ptr")] + "assume_init_mut"
                val = None
                # a place accessed through its own address: `addr_of!(P).read()` is the value of P, `addr_of_mut!(P).write(v)` is `P = v`
                rw = _ptr_rw_kind(full)
                if rw == "read" and len(argt) == 1 and argt[0][0] == "ref" and argt[0][1][0] in ("field", "deref"):
                    val = argt[0][1]
                elif rw == "write" and len(argt) == 2 and argt[0][0] == "ref" and argt[0][1][0] == "field" and _has_deref(argt[0][1]):
                    res.stores.append((argt[0][1], argt[1], bb))
                    val = ("unit",)
                if val is None and self.inline and c is not None and c.target is not None and depth < self.inline_depth and c.target.path not in self.no_inline:
                    val = self.try_inline(c.target, argt, depth + 1, res)
                    if val is not None and fn:
                        val = _subst_generics(val, c.target, fn)
                # `?` on a value this very path has constructed: Try::branch / FromResidual on Option and Result aggregates
                if val is None and full and full.endswith(" as std::ops::Try>::branch") and len(argt) == 1 and argt[0][0] == "agg" \
                        and argt[0][1] == "adt" and (argt[0][2] or "").split("<")[0] in ("std::option::Option", "std::result::Result"):
                    a_ = argt[0]
                    if a_[3] in ("Some", "Ok") and len(a_[4]) == 1:
                        val = ("agg", "adt", "std::ops::ControlFlow", "Continue", (("0", a_[4][0][1]),))
                    elif a_[3] in ("None", "Err"):
                        val = ("agg", "adt", "std::ops::ControlFlow", "Break", (("0", a_),))
                if val is None and full and " as std::ops::FromResidual<" in full and full.endswith(">::from_residual") and len(argt) == 1 \
                        and argt[0][0] == "agg" and argt[0][1] == "adt" and argt[0][3] == "None":
                    val = ("agg", "adt", "std::option::Option", "None", ())
                if val is None and full and full.split("::<")[0] in ("std::ptr::eq", "std::ptr::addr_eq", "core::ptr::eq") and len(argt) == 2:
                    val = ("cmp", "Eq", strip_refs(argt[0]), strip_refs(argt[1]))      # address comparison = `==` on raw pointers
                if val is None:
                    val = ("call", full, argt)
                res.calls.append((bb, full, argt, val, c))
                self.assign(env, t["dest"], val, body, res, bb)
            elif k == "drop":
                res.drops.append((bb, self.place_term(env, t["place"], body), t["place"]["ty"]))
            elif k == "assert":
                pass
        res.ret = env.get(0, ("unit",))
        res.env = env
        return res

    def _const_discr(self, d):
        """integer value of a switch operand that is a compile-time constant, else None"""
        if not isinstance(d, tuple):
            return None
        if d[0] == "const" and isinstance(d[1], int) and not isinstance(d[1], bool):
            return d[1]
        if d[0] == "const" and isinstance(d[1], bool):
            return 1 if d[1] else 0
        if d[0] == "const" and d[1] in ("true", "false"):
            return 1 if d[1] == "true" else 0
        if d[0] == "not":
            v = self._const_discr(d[1])
            return None if v is None else (0 if v else 1)
        if d[0] == "cmp" and d[1] in ("Eq", "Ne"):
            a, b = self._const_discr(d[2]), self._const_discr(d[3])
            if a is not None and b is not None:
                return int((a == b) == (d[1] == "Eq"))
            return None
        if d[0] == "discr":
            x = d[1]
            while isinstance(x, tuple) and x and x[0] in ("ref", "deref"):
                x = x[1]
            vname = adt = None
            if isinstance(x, tuple) and x[0] == "agg" and x[1] == "adt":
                adt, vname = x[2], x[3]
            elif isinstance(x, tuple) and x[0] == "const" and isinstance(x[1], str) and "::" in x[1]:
                adt, vname = x[1].rsplit("::", 1)
            if vname is not None and adt is not None:
                std = {"std::option::Option": ("None", "Some"), "std::result::Result": ("Ok", "Err"),
                       "std::ops::ControlFlow": ("Continue", "Break")}.get(adt.split("<")[0])
                if std is not None and vname in std:
                    return std.index(vname)
            if vname is not None:
                for name, a in self.facts.adts.items():
                    if a.get("kind") == "enum" and (adt is None or name == adt or name.endswith("::" + adt.split("::")[-1]) or adt.endswith(name)):
                        for i, v in enumerate(a["variants"]):
                            if v.get("name") == vname:
                                return i
        return None

    def try_inline(self, callee, argt, depth, caller_res=None):
        """inline a crate-local callee that has exactly one normal path, no stores and only inlinable calls
        (getters, constructors, wrappers)"""
        key = callee.path
        info = self._inl_cache.get(key)
        if info is None:
            try:
                ps = self.paths(callee, max_paths=3)
            except TooComplex:
                ps = []
            info = ps[0] if len(ps) == 1 else False
            self._inl_cache[key] = info
        if not info:
            return None
        r = self.eval_path(callee, info, list(argt), depth)
        if r.stores:
            if not (self.inline_stores and caller_res is not None):
                return None
            caller_res.stores.extend(r.stores)
            caller_res.calls.extend(r.calls)
        # calls inside must all have been inlined or be pure externals; keep the term either way
        return r.ret

    def all_results(self, body, max_paths=MAX_PATHS):
        rs = [self.eval_path(body, p) for p in self.paths(body, max_paths=max_paths)]
        return [r for r in rs if not getattr(r, "infeasible", False)]
