"""E6: term algebra for the size-estimation impls (shared by C08 and C09)."""
from .terms import TermEval, show, poly_terms, strip_refs, subterms, TooComplex, poly_of
from .facts import span_str
from .models import norm


def head_of(ty):
    """a short key for the self type of an impl"""
    k = ty.get("k")
    if k == "adt":
        return ty["name"]
    if k in ("tuple", "slice", "array", "ref", "param", "prim", "ptr"):
        if k == "prim":
            return "prim:" + ty["s"]
        if k == "ref":
            return "refmut" if ty.get("mut") else "ref"
        return k
    return k or "?"


class SizeTraits:
    """the three local traits by the method they declare (rename-proof on the trait names)"""

    def __init__(self, facts):
        self.HEAP = self.VALUE = self.MEM = None
        for p, t in facts.traits.items():
            names = {i["name"] for i in t["items"]}
            if "heap_size" in names:
                self.HEAP = p
            elif "value_size" in names:
                self.VALUE = p
            elif "mem_size" in names:
                self.MEM = p

    def ok(self):
        return bool(self.HEAP and self.VALUE and self.MEM)


class Part:
    """a classified monomial of a heap_size term"""

    def __init__(self, kind, coef, what=None, on=None, via=None, raw=None):
        self.kind = kind      # PART | ELEM | BUF | MEM | LEN | CONST | VSUM | OTHER
        self.coef = coef
        self.what = what      # callee / descriptor
        self.on = on          # projection term the part is computed on
        self.via = via
        self.raw = raw

    def __repr__(self):
        return "%s%s(%s%s)" % ("" if self.coef == 1 else "%d*" % self.coef, self.kind, self.what or "",
                               (" on " + show(self.on)) if self.on is not None else "")

    def to_json(self):
        return {"kind": self.kind, "coef": self.coef, "what": self.what, "on": show(self.on) if self.on is not None else None,
                "via": self.via}


class MemSizeAlgebra:
    def __init__(self, ctx):
        self.ctx = ctx
        self.f = ctx.facts
        self.tr = SizeTraits(ctx.facts)
        # private helpers (a free fn that multiplies a capacity by a size_of, a forwarding wrapper) are inlined; the methods of the
        # three size traits stay symbolic calls: they are what the algebra classifies
        self.te = TermEval(ctx.facts, ctx.cg, inline=True)
        traits = (self.tr.HEAP, self.tr.VALUE, self.tr.MEM)
        self.te.no_inline = set(b.path for b in ctx.facts.bodies
                                if b.is_closure or b.impl_trait in traits or b.j.get("trait_default_of") in traits
                                or b.impl_trait is not None)

    def impl_methods(self, trait):
        """dict self-type-string -> {method name: Body} for impls of `trait` (plus the trait's provided defaults under '<default>')"""
        out = {}
        for b in self.f.bodies:
            if b.kind != "assoc_fn":
                continue
            if b.impl_trait == trait and b.impl_self:
                out.setdefault(b.impl_self["s"], {})[b.name] = b
            elif b.j.get("trait_default_of") == trait:
                out.setdefault("<default>", {})[b.name] = b
        return out

    # ---- term helpers
    def closure_ret(self, clos_term):
        """return term of a closure value (single path) with its upvars substituted, or None"""
        if not (isinstance(clos_term, tuple) and clos_term[0] == "closure"):
            return None
        cb = self.f.body(clos_term[1])
        if cb is None:
            return None
        try:
            ps = self.te.paths(cb, max_paths=4)
        except TooComplex:
            return None
        if len(ps) != 1:
            return None
        args = [("ref", clos_term)] + [("param", 100 + i) for i in range(1, cb.arg_count)]
        return self.te.eval_path(cb, ps[0], args).ret

    def is_trait_call(self, t, trait, name=None):
        if not (isinstance(t, tuple) and t[0] == "call"):
            return False
        s = t[1]
        if (" as %s>::" % trait) not in s:
            return False
        if name is not None:
            m = s.split(">::", 1)[1]
            m = m.split("::<")[0]
            return m == name
        return True

    def method_of(self, t):
        s = t[1]
        m = s.split(">::", 1)[1] if ">::" in s else s
        return m.split("::<")[0]

    def self_of(self, t):
        # "<T as trait>::m" -> "T"
        s = t[1]
        if s.startswith("<") and " as " in s:
            return s[1:s.index(" as ")]
        return None

    def classify(self, term):
        """poly term -> [Part]"""
        parts = []
        H, V, M = self.tr.HEAP, self.tr.VALUE, self.tr.MEM
        for coef, mono in poly_terms(term):
            if mono == ():
                parts.append(Part("CONST", coef, what=str(coef)))
                continue
            if len(mono) == 1:
                a = mono[0]
                if self.is_trait_call(a, H, "heap_size"):
                    st = self.self_of(a)
                    if st and (st.startswith("[") and st.endswith("]") and ";" not in st):
                        parts.append(Part("ELEM", coef, what=a[1], on=strip_refs(a[2][0]), via="slice-heap_size", raw=a))
                    else:
                        parts.append(Part("PART", coef, what=a[1], on=strip_refs(a[2][0]), raw=a))
                    continue
                if self.is_trait_call(a, H) and self.method_of(a) in ("heap_size_sum_iter", "heap_size_sum_exact_size_iter"):
                    src = self.closure_ret(a[2][0]) if a[2] else None
                    parts.append(Part("ELEM", coef, what=a[1], on=src, via=self.method_of(a), raw=a))
                    continue
                if self.is_trait_call(a, V) and self.method_of(a) in ("value_size_sum_iter", "value_size_sum_exact_size_iter"):
                    parts.append(Part("VSUM", coef, what=a[1], on=a[2][0] if a[2] else None, via=self.method_of(a), raw=a))
                    continue
                if self.is_trait_call(a, M, "mem_size"):
                    parts.append(Part("MEM", coef, what=a[1], on=strip_refs(a[2][0]), raw=a))
                    continue
                if self.is_trait_call(a, V, "value_size"):
                    parts.append(Part("VAL", coef, what=a[1], on=strip_refs(a[2][0]), raw=a))
                    continue
                if a[0] == "call" and norm(a[1]).endswith("::capacity"):
                    parts.append(Part("BUF", coef, what="capacity", on=strip_refs(a[2][0]), via="bytes", raw=a))
                    continue
                if a[0] == "call" and norm(a[1]).endswith("::len"):
                    parts.append(Part("LEN", coef, what=norm(a[1]), on=a[2][0] if a[2] else None, raw=a))
                    continue
                parts.append(Part("OTHER", coef, what=show(a), raw=a))
                continue
            if len(mono) == 2:
                caps = [a for a in mono if a[0] == "call" and norm(a[1]).endswith("::capacity")]
                szs = [a for a in mono if a[0] == "call" and norm(a[1]) == "std::mem::size_of"]
                if len(caps) == 1 and len(szs) == 1:
                    elem = szs[0][1]
                    elem = elem[elem.index("::<") + 3:-1] if "::<" in elem else "?"
                    parts.append(Part("BUF", coef, what="capacity*size_of", on=strip_refs(caps[0][2][0]), via=elem, raw=mono))
                    continue
                lens = [a for a in mono if a[0] == "call" and (norm(a[1]).endswith("::len") or norm(a[1]).endswith("::count"))]
                if len(lens) == 1 and len(szs) == 1:
                    parts.append(Part("LENBUF", coef, what="len*size_of", on=lens[0][2][0] if lens[0][2] else None, raw=mono))
                    continue
            parts.append(Part("OTHER", coef, what=" * ".join(show(a) for a in mono), raw=mono))
        # mem_size(x) is value_size(x) + heap_size(x) (the blanket impl, C08.1): the spelled-out pair is the same part
        pairs, taken = {}, set()
        for i, p in enumerate(parts):
            if p.kind != "PART":
                continue
            for j, q in enumerate(parts):
                if j not in taken and q.kind == "VAL" and q.coef == p.coef and show(q.on) == show(p.on) \
                        and self.self_of(q.raw) == self.self_of(p.raw):
                    pairs[i] = j
                    taken.add(j)
                    break
        merged = []
        for i, p in enumerate(parts):
            if i in taken:
                continue
            if i in pairs:
                m = "<%s as %s>::mem_size" % (self.self_of(p.raw), self.tr.MEM)
                merged.append(Part("MEM", p.coef, what=m, on=p.on, raw=("call", m, p.raw[2])))
            else:
                merged.append(p)
        parts = merged
        # VAL parts that found no partner are not something any impl is expected to contain
        for p in parts:
            if p.kind == "VAL":
                p.kind = "OTHER"
                p.what = show(p.raw)
        return parts

    def results(self, body):
        """[(conds, ret term, PathResult)] for each normal path.  A call to a private helper that the term evaluator could not inline
        (several paths, e.g. a match on a lock result) is resolved by evaluating the body with that helper inlined at MIR level."""
        out = []
        for r in self.te.all_results(body, max_paths=64):
            out.append((r.conds, r.ret, r))
        helpers = set()
        for (_c, ret, _r) in out:
            for t in subterms(ret):
                if isinstance(t, tuple) and t and t[0] == "call" and isinstance(t[1], str):
                    fb = self.f.body(norm(t[1])) or self.f.body(t[1])
                    if fb is not None and fb.path not in self.te.no_inline and not fb.is_closure:
                        helpers.add(fb.path)
        if helpers and "#inl" not in body.path:
            try:
                from .inline import derive
                b2, inl = derive(self.ctx, body, lambda tg: tg.path in helpers, depth=2)
            except Exception:
                inl = []
            if inl:
                out = [(r.conds, r.ret, r) for r in self.te.all_results(b2, max_paths=64)]
        return out
