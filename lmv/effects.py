"""E1 (part 3): primitive effects per body in role terms, and transitive summaries."""
from .models import norm
from .facts import span_str, place_str
from .roles import _rv_places


OWN_PRIMS = ("std::ptr::read", "std::ptr::read_unaligned", "std::ptr::read_volatile", "std::mem::MaybeUninit::assume_init_read",
             "std::mem::MaybeUninit::assume_init_drop", "std::ptr::drop_in_place", "std::mem::ManuallyDrop::take",
             "std::mem::ManuallyDrop::drop", "hashbrown::raw::Bucket::read", "std::mem::transmute_copy", "std::ptr::copy",
             "std::ptr::copy_nonoverlapping", "std::boxed::Box::from_raw", "hashbrown::raw::Bucket::drop",
             "std::ptr::mut_ptr::<impl *mut T>::read", "std::ptr::const_ptr::<impl *const T>::read",
             "std::ptr::mut_ptr::<impl *mut T>::drop_in_place")


READ_PRIMS = ("std::ptr::read", "std::ptr::read_unaligned", "std::ptr::read_volatile", "std::ptr::mut_ptr::<impl *mut T>::read",
              "std::ptr::const_ptr::<impl *const T>::read")


def is_copy_ty(facts, ty):
    """`Copy` by construction (scalars, raw pointers, shared references, tuples of those) or by an unconditional local impl"""
    k = ty.get("k")
    if k in ("prim", "ptr", "fnptr", "never") or ty.get("s") in ("usize", "u64", "u32", "u16", "u8", "isize", "i64", "i32", "i16", "i8", "bool", "char", "()"):
        return True
    if k == "ref":
        return not ty.get("mut")
    if k == "tuple":
        return all(is_copy_ty(facts, t) for t in ty.get("tys", []))
    if k == "adt" and ty.get("local"):
        if not hasattr(facts, "_copy_adts"):
            facts._copy_adts = set()
            for im in facts.impls:
                if im.get("path", "").endswith(" as std::marker::Copy>") and (im.get("self_ty") or {}).get("k") == "adt" \
                        and "Copy" not in str(im.get("predicates")):
                    facts._copy_adts.add(im["self_ty"]["name"])
        return ty.get("name") in facts._copy_adts
    return False


def place_fields(place):
    return [e for e in place["p"] if e["k"] == "field"]


def has_deref(place):
    return any(e["k"] == "deref" for e in place["p"])


class Effects:
    def __init__(self, facts, cg, roles):
        self.f = facts
        self.cg = cg
        self.r = roles
        self.direct = {}
        for b in facts.bodies:
            self.direct[b.path] = self._scan(b)
        self._trans = {}

    def _scan(self, b):
        r = self.r
        e = {
            "w_cache": [],      # (field, bb, si, via_deref)
            "w_entry": [],      # (field, bb, si, via_deref)
            "table": [],        # (effect class, Call)
            "user": [],         # Call (user_kind set)
            "hash": [],         # Call of Hash::hash
            "copy_out": [],     # Call: bitwise copy-out of an Entry
            "free": [],         # Call: Box::from_raw
            "raw_mut": [],      # (bb, si) creation of &mut through *mut Entry / write through raw pointer
            "panics": [],       # Call that may panic by itself (model.panics) or assert terminators
            "unmodelled": [],   # external call without a model (and not a user trait call)
            "swap_table": [],   # Call of mem::swap/replace/take on a RawTable
            "own_prim": [],     # Call of a primitive that duplicates or ends ownership bitwise (ptr::read, assume_init_read, drop_in_place..)
        }
        for bi, bl in enumerate(b.blocks):
            for si, st in enumerate(bl["stmts"]):
                if st["k"] != "assign":
                    continue
                pl = st["place"]
                flds = place_fields(pl)
                if flds:
                    last = flds[-1]
                    # write to a cache field
                    for fe in flds:
                        if fe.get("of") == r.cache:
                            e["w_cache"].append((fe["n"], bi, si, has_deref(pl)))
                            break
                    for fe in flds:
                        if fe.get("of") == r.entry:
                            e["w_entry"].append((fe["n"], bi, si, has_deref(pl)))
                            break
                # whole-struct overwrite of an Entry through a pointer
                if not flds and has_deref(pl) and pl["ty"].startswith(r.entry.split("::")[-1] + "<") is False:
                    pass
                # raw pointer deref producing &mut / writes through raw pointers
                rv = st["rv"]
                if rv["k"] in ("ref", "rawptr") and rv.get("mut"):
                    if self._derefs_raw_entry(b, rv["place"]):
                        e["raw_mut"].append((bi, si))
                if has_deref(pl) and self._derefs_raw_entry(b, pl):
                    e["raw_mut"].append((bi, si))
            t = bl["term"]
            if t["k"] == "assert":
                e["panics"].append(("assert:" + t["msg"], bi))
        # p.write(v) / ptr::write(p, v) with p = &raw mut <place> (addr_of_mut!) computed in this body: a store to <place>
        tmp_places = {}
        for bl in b.blocks:
            for st in bl["stmts"]:
                if st["k"] == "assign" and not st["place"]["p"] and st["rv"]["k"] in ("rawptr", "ref") and st["rv"].get("mut"):
                    tmp_places[st["place"]["l"]] = st["rv"]["place"]
        for c in self.cg.calls.get(b.path, []):
            if c.external and norm(c.resolved or c.nominal) in ("std::ptr::write", "std::ptr::mut_ptr::<impl *mut T>::write",
                                                                "std::ptr::write_unaligned", "std::ptr::mut_ptr::<impl *mut T>::write_unaligned"):
                a0 = c.term["args"][0] if c.term.get("args") else None
                if a0 and a0.get("k") in ("move", "copy") and not a0["place"]["p"] and a0["place"]["l"] in tmp_places:
                    pl = tmp_places[a0["place"]["l"]]
                    for fe in place_fields(pl):
                        if fe.get("of") == r.cache:
                            e["w_cache"].append((fe["n"], c.bb, None, has_deref(pl)))
                            break
                    for fe in place_fields(pl):
                        if fe.get("of") == r.entry:
                            e["w_entry"].append((fe["n"], c.bb, None, has_deref(pl)))
                            break
        for c in self.cg.calls.get(b.path, []):
            if c.user_kind:
                e["user"].append(c)
                if c.trait == "std::hash::Hash" and c.name == "hash":
                    e["hash"].append(c)
            if c.external:
                m = c.model
                n = norm(c.resolved or c.nominal)
                if m is None and not (c.trait and c.user_kind):
                    e["unmodelled"].append(c)
                if m is not None:
                    if m.get("table"):
                        e["table"].append((m["table"], c))
                    if m.get("panics"):
                        e["panics"].append((n, c.bb))
                if n in ("std::ptr::read", "hashbrown::raw::Bucket::read", "std::mem::MaybeUninit::assume_init_read",
                         "std::ptr::read_unaligned", "std::ptr::read_volatile", "std::ptr::mut_ptr::<impl *mut T>::read",
                         "std::ptr::const_ptr::<impl *const T>::read", "std::ptr::mut_ptr::<impl *mut T>::read_unaligned",
                         "std::ptr::const_ptr::<impl *const T>::read_unaligned", "std::ptr::NonNull::read"):
                    if self._mentions_entry(c):
                        e["copy_out"].append(c)
                if n in OWN_PRIMS and not (n in READ_PRIMS and self._reads_copy_type(c)):
                    e["own_prim"].append(c)      # (reading a `Copy` value out through a pointer duplicates nothing that is owned)
                if n == "std::boxed::Box::from_raw" and self._mentions_entry(c):
                    e["free"].append(c)
                if n in ("std::mem::swap", "std::mem::replace", "std::mem::take") and self._mentions_table(c):
                    e["swap_table"].append(c)
                if n in ("std::ptr::write", "std::ptr::write_unaligned", "std::ptr::copy", "std::ptr::copy_nonoverlapping",
                         "std::ptr::swap", "std::ptr::write_bytes") and self._mentions_entry(c):
                    e["raw_mut"].append((c.bb, None))
        return e

    def _copy_ty(self, ty):
        return is_copy_ty(self.f, ty)

    def _reads_copy_type(self, c):
        args = c.fn.get("args") or []
        return len(args) >= 1 and isinstance(args[0], dict) and self._copy_ty(args[0])

    def _mentions_entry(self, c):
        from .callgraph import ty_adts
        names = set()
        for a in c.fn.get("args", []):
            ty_adts(a, names)
        return self.r.entry in names

    def _mentions_table(self, c):
        from .callgraph import ty_adts
        names = set()
        for a in c.fn.get("args", []):
            ty_adts(a, names)
        return "hashbrown::raw::RawTable" in names

    def _derefs_raw_entry(self, b, place):
        """does the place dereference a raw pointer to Entry (`*mut Entry`)?"""
        # walk the projection and track the type string coarsely: we only have per-elem field types
        cur_ty = b.local_ty(place["l"])["s"]
        ent = self.r.entry
        for e in place["p"]:
            if e["k"] == "deref":
                if cur_ty.startswith("*mut ") and ent in cur_ty:
                    return True
                # after deref we no longer know the type string precisely; approximate by stripping
                if cur_ty.startswith("&mut "):
                    cur_ty = cur_ty[5:]
                elif cur_ty.startswith("&"):
                    cur_ty = cur_ty[1:].lstrip()
                elif cur_ty.startswith("*mut "):
                    cur_ty = cur_ty[5:]
                elif cur_ty.startswith("*const "):
                    cur_ty = cur_ty[7:]
            elif e["k"] == "field":
                cur_ty = e["ty"]
        return False

    # --------------------------------------------------------- derived classes
    def is_link_writer(self, b):
        r = self.r
        return any(f in r.links and via for (f, _bb, _si, via) in self.direct[b.path]["w_entry"])

    def is_raw_writer(self, b):
        d = self.direct[b.path]
        return bool(d["raw_mut"] or d["free"] or d["copy_out"]) or self.is_link_writer(b) or \
            any(via for (_f, _bb, _si, via) in d["w_entry"])

    def trans(self, b, include_drops=True):
        """transitive summary over everything reachable from b"""
        key = (b.path, include_drops)
        if key in self._trans:
            return self._trans[key]
        out = {k: [] for k in ("w_cache", "w_entry", "table", "user", "hash", "copy_out", "free", "raw_mut", "panics",
                               "unmodelled", "swap_table", "own_prim")}
        for p, body in self.cg.reach(b, include_drops).items():
            d = self.direct[p]
            for k in out:
                for x in d[k]:
                    out[k].append((p, x))
        self._trans[key] = out
        return out
