"""Linear arithmetic for E3: exact rational linear expressions, constraint sets, Fourier-Motzkin entailment."""
from fractions import Fraction as Fr


class Lin:
    __slots__ = ("t", "c", "_k")

    def __init__(self, terms=None, c=0):
        self.t = {k: (v if isinstance(v, Fr) else Fr(v)) for k, v in (terms or {}).items() if v != 0}
        self.c = c if isinstance(c, Fr) else Fr(c)
        self._k = None

    @staticmethod
    def const(c):
        return Lin({}, c)

    @staticmethod
    def sym(s):
        return Lin({s: 1}, 0)

    def is_const(self):
        return not self.t

    def __add__(self, o):
        o = as_lin(o)
        d = dict(self.t)
        for k, v in o.t.items():
            d[k] = d.get(k, 0) + v
        return Lin(d, self.c + o.c)

    def __sub__(self, o):
        o = as_lin(o)
        d = dict(self.t)
        for k, v in o.t.items():
            d[k] = d.get(k, 0) - v
        return Lin(d, self.c - o.c)

    def scale(self, k):
        k = Fr(k)
        return Lin({s: v * k for s, v in self.t.items()}, self.c * k)

    def __neg__(self):
        return self.scale(-1)

    def syms(self):
        return set(self.t)

    def subst(self, sym, lin):
        if sym not in self.t:
            return self
        k = self.t[sym]
        d = dict(self.t)
        del d[sym]
        return Lin(d, self.c) + lin.scale(k)

    def key(self):
        if self._k is None:
            self._k = (tuple(sorted((str(k), v) for k, v in self.t.items())), self.c)
        return self._k

    def __eq__(self, o):
        return isinstance(o, Lin) and self.t == o.t and self.c == o.c

    def __hash__(self):
        return hash(self.key())

    def __repr__(self):
        parts = []
        for k, v in sorted(self.t.items(), key=lambda kv: str(kv[0])):
            if v == 1:
                parts.append("%s" % (k,))
            elif v == -1:
                parts.append("-%s" % (k,))
            else:
                parts.append("%s*%s" % (v, k))
        if self.c != 0 or not parts:
            parts.append(str(self.c))
        return " + ".join(parts).replace("+ -", "- ")


def as_lin(x):
    if isinstance(x, Lin):
        return x
    return Lin.const(x)


# constraint = (kind, Lin) meaning  lin <= 0  ('le')  or  lin == 0  ('eq')
def le(a, b):
    return ("le", as_lin(a) - as_lin(b))


def lt(a, b):
    return ("le", as_lin(a) - as_lin(b) + 1)   # integers


def eq(a, b):
    return ("eq", as_lin(a) - as_lin(b))


def ge(a, b):
    return le(b, a)


def gt(a, b):
    return lt(b, a)


def negate(c):
    """negation of a constraint over the integers; returns a list of alternative constraints (disjunction)"""
    kind, l = c
    if kind == "le":     # not (l <= 0)  <=>  l >= 1  <=>  -l + 1 <= 0
        return [("le", (-l) + 1)]
    return [("le", l + 1), ("le", (-l) + 1)]   # l != 0


def cstr(c):
    return "%s %s 0" % (c[1], "<=" if c[0] == "le" else "==")


def _norm(l):
    """scale so that the first coefficient has absolute value 1 (for dedup)"""
    if not l.t:
        return l
    k = sorted(l.t.items(), key=lambda kv: str(kv[0]))[0][1]
    return l.scale(1 / abs(k))


HUBS = frozenset(["UM"])


class Num:
    """a conjunction of linear constraints"""

    def __init__(self, cons=None):
        self.cons = []
        self._feas = None
        self._keys = set()
        self._red = None
        for c in (cons or []):
            self.add(c)

    def copy(self):
        n = Num()
        n.cons = list(self.cons)
        n._keys = set(self._keys)
        n._feas = self._feas
        n._red = self._red
        return n

    def add(self, c):
        kind, l = c
        if l.is_const():
            if (kind == "le" and l.c <= 0) or (kind == "eq" and l.c == 0):
                return
        k = (kind, _norm(l).key())
        if k in self._keys:
            return
        self._keys.add(k)
        self.cons.append(c)
        self._feas = None
        self._red = None

    def _reduced(self):
        """(subst list [(sym, lin)], inequalities after substitution, feasible?) -- equalities solved once, cached"""
        if self._red is None:
            eqs = [l for k, l in self.cons if k == "eq"]
            les = [l for k, l in self.cons if k == "le"]
            subst = []
            ok = True
            while eqs:
                e = eqs.pop()
                if e.is_const():
                    if e.c != 0:
                        ok = False
                        break
                    continue
                # prefer eliminating a symbol with coefficient +-1
                s = None
                for cand, cv in e.t.items():
                    if abs(cv) == 1:
                        s = cand
                        break
                if s is None:
                    s = next(iter(e.t))
                k = e.t[s]
                d = dict(e.t)
                del d[s]
                sol = Lin(d, e.c).scale(Fr(-1) / k)
                eqs = [x.subst(s, sol) for x in eqs]
                les = [x.subst(s, sol) for x in les]
                subst = [(a, b.subst(s, sol)) for (a, b) in subst]
                subst.append((s, sol))
            if ok:
                les = _dedupe(les)
                if les is None:
                    ok = False
                    les = []
            self._red = (subst, les, ok)
        return self._red

    def reduce_lin(self, l):
        subst, _les, _ok = self._reduced()
        for (s, sol) in subst:
            if s in l.t:
                l = l.subst(s, sol)
        return l

    def feasible(self):
        if self._feas is None:
            subst, les, ok = self._reduced()
            self._feas = ok and (_fm_feasible(les) if les else True)
        return self._feas

    def entails(self, c):
        """does the conjunction imply c (over the integers, checked over the rationals => sound)"""
        if not self.feasible():
            return True
        subst, les, _ok = self._reduced()
        kind, l = c
        l = self.reduce_lin(l)
        if l.is_const():
            return (l.c <= 0) if kind == "le" else (l.c == 0)
        for alt in negate((kind, l)):
            q = alt[1]
            # only the constraints connected to the query through shared symbols matter (the base is feasible)
            # hub symbols (usize::MAX bounds every unsigned value) do not connect components: using fewer hypotheses is sound
            syms = set(q.t) - HUBS
            comp = []
            rest = list(les)
            grew = True
            while grew:
                grew = False
                keep = []
                for x in rest:
                    xs = set(x.t) - HUBS
                    if (syms & xs) or (not xs and (set(x.t) & set(q.t))):
                        comp.append(x)
                        syms |= xs
                        grew = True
                    else:
                        keep.append(x)
                rest = keep
            if _fm_feasible(comp + [q]):
                return False
        return True

    def syms(self):
        s = set()
        for _k, l in self.cons:
            s |= l.syms()
        return s

    def restrict(self, keep):
        """project onto the symbols in `keep` (Fourier-Motzkin elimination of the others)"""
        cons = _eliminate(self.cons, [s for s in self.syms() if s not in keep])
        return Num(cons)


def _fm_feasible(les):
    return _eliminate([("le", l) for l in les], None) is not None


def _feasible(cons):
    res = _eliminate(cons, None)
    return res is not None


def _eliminate(cons, elim):
    """Fourier-Motzkin. elim=None: eliminate everything and return [] if feasible / None if infeasible.
    elim=list: eliminate those symbols, return remaining constraints (or [] + contradiction marker)."""
    eqs = [l for k, l in cons if k == "eq"]
    les = [l for k, l in cons if k == "le"]
    allsyms = set()
    for l in eqs + les:
        allsyms |= l.syms()
    target = set(allsyms) if elim is None else set(elim)
    kept_eqs = []
    # Gaussian elimination on equalities
    while eqs:
        e = eqs.pop()
        if e.is_const():
            if e.c != 0:
                return None
            continue
        cand = [s for s in e.t if s in target]
        if not cand:
            kept_eqs.append(e)
            continue
        s = cand[0]
        k = e.t[s]
        d = dict(e.t)
        del d[s]
        sol = Lin(d, e.c).scale(Fr(-1) / k)     # s = sol
        eqs = [x.subst(s, sol) for x in eqs]
        kept_eqs = [x.subst(s, sol) for x in kept_eqs]
        les = [x.subst(s, sol) for x in les]
        target.discard(s)
    # inequalities
    les = _dedupe(les)
    if les is None:
        return None
    remaining = set()
    for l in les:
        remaining |= l.syms()
    todo = [s for s in remaining if s in target]
    while todo:
        # pick the variable producing the fewest combinations
        best = None
        for s in todo:
            pos = sum(1 for l in les if l.t.get(s, 0) > 0)
            neg = sum(1 for l in les if l.t.get(s, 0) < 0)
            score = pos * neg - pos - neg
            if best is None or score < best[0]:
                best = (score, s)
        s = best[1]
        todo.remove(s)
        pos = [l for l in les if l.t.get(s, 0) > 0]
        neg = [l for l in les if l.t.get(s, 0) < 0]
        rest = [l for l in les if s not in l.t]
        for p in pos:
            for n in neg:
                kp = p.t[s]
                kn = -n.t[s]
                rest.append(p.scale(1 / kp) + n.scale(1 / kn))
        les = _dedupe(rest)
        if les is None:
            return None
        if len(les) > 4000:
            # give up precision, stay sound: pretend feasible / keep nothing
            return [] if elim is None else [("le", l) for l in les[:200]]
        todo = [x for x in todo if any(x in l.t for l in les)]
    for l in les:
        if l.is_const() and l.c > 0:
            return None
    out = [("eq", e) for e in kept_eqs] + [("le", l) for l in les if not l.is_const()]
    return out


def _dedupe(les):
    seen = {}
    out = []
    for l in les:
        if l.is_const():
            if l.c > 0:
                return None
            continue
        n = _norm(l)
        k = tuple(sorted((str(a), b) for a, b in n.t.items()))
        # keep the strongest constant for identical left-hand sides
        if k in seen:
            if n.c > seen[k].c:
                seen[k] = n
        else:
            seen[k] = n
    return list(seen.values())
