"""Interprocedural, context-sensitive pointer-provenance ("taint") analysis over MIR.

A value is *tainted* when it is, or may contain, a pointer/handle/reference into the memory of a designated
origin (e.g. the cache behind a `&self` receiver).  Taint facts are keyed by (local, variant|None).
Flow-insensitive inside a body (fixpoint over statements), context-sensitive across crate-local calls
(callee re-analysed per set of tainted parameters, memoised), closures analysed at the call that receives them.
Reports every *write through* a tainted pointer:
  - assignment to a place that dereferences a tainted local,
  - a mutating external callee (model.writes or unmodelled) receiving a tainted `&mut`/`*mut` argument,
  - creation of `&mut` from a tainted raw pointer is not itself a write; the write through it is caught by taint flow.
"""
from .models import norm
from .facts import span_str, place_str


def _is_ptr_ty(ty):
    return isinstance(ty, dict) and ty.get("k") in ("ref", "ptr")


def can_hold_ptr(ty, depth=0):
    """can a value of this type be / contain a pointer into cache memory?  (scalars and bare user values cannot)"""
    if not isinstance(ty, dict) or depth > 8:
        return True
    k = ty.get("k")
    if k in ("prim", "param", "fndef"):
        return False
    if k in ("ref", "ptr"):
        return True
    if k == "adt":
        if ty.get("local"):
            return True
        return any(can_hold_ptr(a, depth + 1) for a in ty.get("args", []) if a.get("k") not in ("region", "const"))
    if k == "tuple":
        return any(can_hold_ptr(a, depth + 1) for a in ty.get("tys", []))
    if k == "closure":
        return any(can_hold_ptr(a, depth + 1) for a in ty.get("upvars", []))
    if k in ("slice", "array"):
        return can_hold_ptr(ty.get("ty"), depth + 1)
    return True


class TaintAnalysis:
    def __init__(self, ctx, handle_adts=()):
        self.ctx = ctx
        self.f = ctx.facts
        self.cg = ctx.cg
        self.memo = {}
        self.active = set()
        self.writes = []      # (body.path, bb, description, span)

    # operand / place taint lookups
    @staticmethod
    def _place_keys(pl):
        """taint keys consulted when a place is read"""
        keys = [(pl["l"], None)]
        for e in pl["p"]:
            if e["k"] == "downcast":
                keys.append((pl["l"], e.get("n")))
                break
        return keys

    def _op_tainted(self, op, T):
        if op["k"] in ("copy", "move"):
            return any(k in T for k in self._place_keys(op["place"]))
        return False

    def run(self, body, tainted_params, chain=()):
        """tainted_params: frozenset of param local indices (1-based MIR locals).
        returns (ret_tainted: bool)"""
        tainted_params = frozenset((p, None) if isinstance(p, int) else p for p in tainted_params)
        key = (body.path, tainted_params)
        if key in self.memo:
            return self.memo[key]
        if key in self.active:
            return frozenset([None])  # recursion: conservative
        self.active.add(key)
        T = set(tainted_params)
        calls = {c.bb: c for c in self.cg.calls.get(body.path, [])}
        changed = True
        found = []
        it = 0
        while changed and it < 50:
            it += 1
            changed = False
            for bi, bl in enumerate(body.blocks):
                for st in bl["stmts"]:
                    if st["k"] != "assign":
                        continue
                    pl = st["place"]
                    rv = st["rv"]
                    src_t = self._rv_tainted(rv, T)
                    base_t = (pl["l"], None) in T
                    has_deref = any(e["k"] == "deref" for e in pl["p"])
                    if has_deref and base_t:
                        found.append((body.path, bi, "write through shared-origin pointer: %s = ..." % place_str(pl), span_str(st["span"])))
                    if src_t and can_hold_ptr(body.local_ty(pl["l"])) :
                        # storing a tainted value: the destination (local) now contains it
                        if not has_deref:
                            k = (pl["l"], None)
                            for e in pl["p"]:
                                if e["k"] == "downcast":
                                    k = (pl["l"], e.get("n"))
                                    break
                            if not pl["p"] and rv["k"] == "aggregate" and rv.get("agg") == "adt" and len(self._variants_of(rv["name"])) > 1:
                                k = (pl["l"], rv["vname"])
                            if not pl["p"] and rv["k"] == "use" and rv["op"]["k"] in ("copy", "move") and not rv["op"]["place"]["p"]:
                                # whole-local copy/move keeps the per-variant facts
                                srcl = rv["op"]["place"]["l"]
                                for (l2, v2) in list(T):
                                    if l2 == srcl and (pl["l"], v2) not in T:
                                        T.add((pl["l"], v2))
                                        changed = True
                                continue
                            if k not in T:
                                T.add(k)
                                changed = True
                        # (a tainted value stored into memory behind an untainted pointer is *not* tracked here:
                        #  stale handles inside freshly built entries are the business of C14.3's must-overwrite rule)
                t = bl["term"]
                if t["k"] == "call":
                    c = calls.get(bi)
                    args_t = [self._op_tainted(a, T) for a in t["args"]]
                    rt = self._call(body, c, t, args_t, T, found, chain)
                    if rt and can_hold_ptr(body.local_ty(t["dest"]["l"])):
                        if rt is True:
                            rt = frozenset([None])
                        for var in rt:
                            k = (t["dest"]["l"], var if not t["dest"]["p"] else None)
                            if k not in T:
                                T.add(k)
                                changed = True
        ret = frozenset(k[1] for k in T if k[0] == 0)
        self.active.discard(key)
        self.memo[key] = ret
        for w in found:
            if w not in self.writes:
                self.writes.append(w + (" <- ".join(chain + (body.path,)),))
        return ret

    def _rv_tainted(self, rv, T):
        k = rv["k"]
        if k in ("use", "cast", "unop"):
            return self._op_tainted(rv.get("op") or rv.get("a"), T)
        if k in ("ref", "rawptr", "copyforderef", "discr"):
            return any(kk in T for kk in self._place_keys(rv["place"])) and k != "discr"
        if k == "binop":
            return False
        if k == "aggregate":
            return any(self._op_tainted(o, T) for o in rv["ops"])
        return False

    def _call(self, body, c, t, args_t, T, found, chain):
        if not any(args_t):
            # still descend? a callee with no tainted input cannot reach shared memory (no globals here)
            return False
        if c is None:
            return True
        nchain = chain + (body.path,)
        if c.target is not None:
            tp = set()
            for i, a in enumerate(t["args"]):
                if not args_t[i]:
                    continue
                if a["k"] in ("copy", "move") and not a["place"]["p"]:
                    for (l2, v2) in T:
                        if l2 == a["place"]["l"]:
                            tp.add((i + 1, v2))
                else:
                    tp.add((i + 1, None))
            return self.run(c.target, frozenset(tp), nchain)
        # external
        m = c.model
        n = norm(c.resolved or c.nominal)
        res = False
        # closures handed to an external higher-order function: analysed with every parameter tainted
        if c.closures and (m is None or m.get("closures")):
            for cb in c.closures:
                tp = frozenset(range(1, cb.arg_count + 1))
                if self.run(cb, tp, nchain):
                    res = True
        for tb in c.type_targets:
            tp = frozenset(range(1, tb.arg_count + 1))
            if self.run(tb, tp, nchain):
                res = True
        # direct call of a closure value / Fn trait on a local closure handled through c.target above.
        from .effects import OWN_PRIMS, READ_PRIMS, is_copy_ty
        fargs_ = (c.fn.get("args") or []) if c.fn else []
        if n in OWN_PRIMS and not (n in READ_PRIMS and fargs_ and isinstance(fargs_[0], dict) and is_copy_ty(self.f, fargs_[0])):
            for i, a in enumerate(t["args"]):
                if args_t[i]:
                    found.append((body.path, c.bb, "ownership primitive %s applied to shared-origin memory (bitwise copy-out / drop of data "
                                  "the shared cache still owns)" % n, c.loc))
        writes = (m is None and not (c.trait and c.user_kind)) or (m is not None and m.get("writes"))
        if writes:
            for i, a in enumerate(t["args"]):
                if args_t[i] and a["k"] in ("copy", "move"):
                    ty = self._op_ty(body, a)
                    if ty and ((ty.get("k") == "ref" and ty.get("mut")) or (ty.get("k") == "ptr" and ty.get("mut"))):
                        found.append((body.path, c.bb, "mutating callee %s receives a shared-origin pointer (arg %d)" % (n, i), c.loc))
        if m is not None:
            if m.get("payload"):
                v = m["payload"]
                a0 = t["args"][0]
                if a0["k"] in ("copy", "move"):
                    l = a0["place"]["l"]
                    return ((l, v) in T) or ((l, None) in T and not any(k[0] == l and k[1] is not None for k in T))
                return False
            if m.get("ret_variants"):
                out = set()
                for var, idxs in m["ret_variants"].items():
                    if any(args_t[i] for i in idxs if i < len(args_t)):
                        out.add(var)
                return frozenset(out) if out else res
            if m.get("ret_from") is not None:
                return res or any(args_t[i] for i in m["ret_from"] if i < len(args_t))
        # user trait calls (hash, eq, clone, size, fmt...) return owned user values / integers: no cache pointers
        if c.user_kind and c.user_kind in ("hash", "eq", "size", "fmt", "borrow"):
            return res
        return True

    def _variants_of(self, adt_name):
        a = self.f.adts.get(adt_name)
        if a:
            return a["variants"]
        if adt_name in ("std::result::Result", "std::option::Option", "std::ops::ControlFlow"):
            return [0, 1]
        return [0]

    def _op_ty(self, body, op):
        pl = op["place"]
        if not pl["p"]:
            return body.local_ty(pl["l"])
        return None
