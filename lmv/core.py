"""Result collection, evidence files, known findings, report files."""
import json, os, re, time, hashlib
from .facts import VERIF, span_str


class Violation:
    def __init__(self, key, msg, loc=None, detail=None, rule=None):
        self.key = key            # stable, no line numbers
        self.msg = msg
        self.loc = loc            # human readable file:line:col
        self.detail = detail or {}
        self.rule = rule

    def to_json(self):
        return {"key": self.key, "rule": self.rule, "message": self.msg, "location": self.loc, "detail": self.detail}


class Result:
    """What one property's rules found on one tree."""

    def __init__(self, pid):
        self.pid = pid
        self.violations = []
        self.obligations = []     # (name, discharged: bool, detail)
        self.instances = {}       # rule class -> count of instances examined
        self.samples = []
        self.notes = []
        self.assumptions = []
        self.trusted = []
        self.analysed = {}        # free-form: what was analysed
        self.floors = []          # (what, count, floor)

    # ---- recording
    def violate(self, key, msg, loc=None, detail=None, rule=None):
        for v in self.violations:
            if v.key == key:
                return v
        v = Violation(key, msg, loc, detail, rule)
        self.violations.append(v)
        return v

    def oblige(self, name, ok, detail=None, key=None, loc=None, rule=None, msg=None):
        """Record an obligation; an undischarged one is also a violation."""
        self.obligations.append({"name": name, "discharged": bool(ok), "detail": detail})
        if not ok:
            self.violate(key or name, msg or ("obligation not discharged: %s" % name), loc, {"obligation": name, "why": detail}, rule)
        return ok

    def count(self, cls, n=1):
        self.instances[cls] = self.instances.get(cls, 0) + n

    def sample(self, s, limit=12):
        if len(self.samples) < limit:
            self.samples.append(s)

    def note(self, s):
        if s not in self.notes:
            self.notes.append(s)

    def floor(self, what, count, floor, rule=None):
        """Fail closed when an instance count drops below what was confirmed by hand."""
        self.floors.append({"what": what, "count": count, "floor": floor})
        if count < floor:
            self.violate("vacuity:%s" % what,
                         "rule class '%s' matched %d instance(s), fewer than the %d confirmed on the reference tree: "
                         "anchor missing or analysis blind (fail closed)" % (what, count, floor), None,
                         {"count": count, "floor": floor}, rule or "vacuity")

    def merge(self, other):
        for v in other.violations:
            self.violate(v.key, v.msg, v.loc, v.detail, v.rule)
        self.obligations += other.obligations
        for k, n in other.instances.items():
            self.count(k, n)
        for s in other.samples:
            self.sample(s)
        for n in other.notes:
            self.note(n)
        self.floors += other.floors
        for a in other.assumptions:
            if a not in self.assumptions:
                self.assumptions.append(a)
        for a in other.trusted:
            if a not in self.trusted:
                self.trusted.append(a)
        self.analysed.update(other.analysed)


# ------------------------------------------------------------ known findings
def load_known():
    p = os.path.join(VERIF, "known_findings.json")
    if not os.path.exists(p):
        return {"known": [], "fixed": []}
    with open(p) as fh:
        return json.load(fh)


def known_keys(pid):
    k = load_known()
    return {e["key"]: e for e in k.get("known", []) if e.get("property") == pid}


# ------------------------------------------------------------------ output
def safe_name(key):
    s = re.sub(r"[^A-Za-z0-9_.-]+", "_", key)[:80]
    return s + "-" + hashlib.sha1(key.encode()).hexdigest()[:8]


def finish(res, tier, level, info, wall_s, explanation, checker_cmd, seed=0, extra_cov=None, quiet=False):
    """Print KNOWN-FINDING / VIOLATION lines, write evidence + reports, return exit code."""
    pid = res.pid
    known = known_keys(pid)
    ev_dir = os.environ.get("LMV_EVIDENCE_DIR") or os.path.join(VERIF, "evidence")
    rep_dir = os.path.join(ev_dir, "reports")
    os.makedirs(rep_dir, exist_ok=True)
    new = []
    kn = []
    RM = "[release-mir] "
    for v in res.violations:
        # the same construct seen again on the release-like extraction of the thorough tier is the same finding
        base = v.key[len(RM):] if v.key.startswith(RM) else v.key
        if base in known:
            v.known_as = base
            kn.append(v)
        else:
            new.append(v)
    printed = set()
    for v in kn:
        if v.known_as in printed:
            continue
        printed.add(v.known_as)
        v_key = v.known_as
        print("KNOWN-FINDING: property=%s %s [%s] %s" % (pid, known[v_key].get("what", v.msg), v_key, v.loc or ""))
    for v in new:
        path = os.path.join(rep_dir, "%s-%s.json" % (pid, safe_name(v.key)))
        with open(path, "w") as fh:
            json.dump({"property": pid, "tier": tier, "violation": v.to_json(), "tree": info}, fh, indent=1)
        if not quiet:
            print("  [%s] %s" % (v.rule or "rule", v.key))
            print("      %s" % v.msg)
            if v.loc:
                print("      at %s" % v.loc)
        print("VIOLATION property=%s replay=%s" % (pid, path))
    n_obl = len(res.obligations)
    n_dis = sum(1 for o in res.obligations if o["discharged"])
    cov = {
        "explanation": explanation,
        "obligations": n_obl,
        "discharged": n_dis,
        "checker_cmd": checker_cmd,
        "trusted_base": res.trusted,
        "rule_instances": res.instances,
        "instance_floors": res.floors,
        "samples": res.samples if res.samples else [o for o in res.obligations[:8]],
        "analysed": res.analysed,
        "notes": res.notes,
        "exhaustive": True,
        "violation_keys": [v.key for v in new],
        "known_finding_keys": [v.key for v in kn],
        "undischarged": [o for o in res.obligations if not o["discharged"]][:20],
        "tree": info,
    }
    if extra_cov:
        cov.update(extra_cov)
    ev = {
        "property_id": pid,
        "tier": tier,
        "seed": int(seed),
        "level": level,
        "coverage": cov,
        "assumptions": res.assumptions,
        "wall_s": round(wall_s, 3),
        "violations": len(new),
    }
    tmp = os.path.join(ev_dir, ".%s.json.%d" % (pid, os.getpid()))
    with open(tmp, "w") as fh:
        json.dump(ev, fh, indent=1, default=str)
    os.replace(tmp, os.path.join(ev_dir, "%s.json" % pid))
    if not quiet:
        print("%s [%s]: %d obligation(s), %d discharged; %d rule instance(s); %d violation(s), %d known finding(s); %.1fs"
              % (pid, tier, n_obl, n_dis, sum(res.instances.values()), len(new), len(kn), wall_s))
    return 1 if new else 0
