"""Property registry: level, explanation, technique (also the source of MANIFEST.json)."""

PROPS = {}


def P(pid, level, technique, explanation, note, design_ref):
    PROPS[pid] = {"level": level, "technique": technique, "explanation": explanation, "note": note, "design_ref": design_ref}


TB = ("Trusted base: rustc's MIR for /repo's current tree (nightly, -Zmir-opt-level=0), the frozen model of external "
      "callees in lmv/models.py (hashbrown 0.14.5 RawTable, core, std), and the Python analyses in lmv/.")

P("C19", "other", "call-graph reachability + effect summaries over MIR (who-may-write)",
  "Structural clause decided: from every operation available through &LruCache (pub fns with a shared receiver, Clone::clone, "
  "Debug::fmt, and every method of the borrowing iterators) the resolved call graph (closure edges, type-driven trait edges, "
  "drop glue) reaches no body that writes a cache field, writes an Entry through a pointer, frees/copies out an Entry or calls a "
  "mutating RawTable method on memory that originates from the shared receiver; the cache/entry/handle/iterator types contain no "
  "interior mutability. Necessary for 'never writes': any such write is a write through &self.",
  TB + " Not decided: nothing else; 'observable state unchanged' follows from the absence of writes.", "DESIGN.md 3/C19")
P("C20", "other", "call-graph hash-cost counting with loop discipline over MIR",
  "Structural clause decided: hash sites (calls of Hash::hash on the key) are counted along acyclic call/CFG paths per public "
  "operation (<= 2 outside loops); a loop that reaches a hash site must retire (remove or relocate) one entry per iteration (any number "
  "of such loops in sequence, never nested); "
  "only the table-rebuilding operations reach the per-held-entry rehash loop, once; traversals, clear, drain and the LRU/MRU peeks "
  "reach no hash site.",
  TB + " Not decided: cost of Eq comparisons / probe lengths.", "DESIGN.md 3/C20")
P("C18", "proof", "rustc accept/reject probes with compiling twins + impl-predicate facts",
  "Decided by rustc's own type and borrow checker: (1) the only unsafe auto-trait impls are Send/Sync for the cache with exactly "
  "K,V,S: Send resp. Sync; (2) generic positive probes compile; (3) six negative probes (a !Send resp. Send+!Sync witness in each "
  "parameter position) are rejected with E0277 on the marked line while their twins compile; (4) for every pub fn returning a "
  "borrow: all lifetimes of the return type are the receiver's, and generated programs that mutate or drop the cache while the "
  "result (or an item of a borrowing iterator) is alive are rejected with E0499/E0502/E0505, twins compile.",
  "Trusted base: rustc. Borrow probes instantiate K=V=String; the signature rule is instantiation-independent.", "DESIGN.md 3/C18")
P("C08", "other", "term algebra over MIR def-use (polynomial normal forms) + sibling agreement + call-graph cycle check + E0119 probe",
  "Structural clauses decided: mem_size's one blanket impl returns value_size+heap_size and cannot be overridden (E0119 witness); for "
  "every HeapSize impl the return term on every path is exactly the sum of one part per owned component prescribed for that std type "
  "(tuples by arity, Option/Result per variant, ranges, Wrapping, Box, slices/arrays, Vec/BinaryHeap/HashMap/HashSet incl. hasher, "
  "Mutex/RwLock); provided defaults are the element-wise sums; every bulk override is the lifting of the impl's own heap_size over fresh "
  "make_iter() calls; the array-flattening iterator's next/size_hint have the required shape; no same-instantiation recursion and no "
  "panic-capable callee on any size-estimation path.",
  TB + " Not decided: that std iterators yield each element once; arithmetic overflow of sums.", "DESIGN.md 3/C08")
P("C09", "other", "term algebra over MIR def-use: own-buffer term per std owner type",
  "Structural clause decided (partial): for every HeapSize impl of a std buffer owner the own-buffer term on every path is "
  "capacity() (byte buffers) or capacity() x size_of::<stored element>() with the right element type, exact-fit owners use the pointee's "
  "mem_size (Box) or as_bytes_with_nul().len() (CString), references contribute 0, and no length-derived term stands in for a buffer. "
  "This is the necessary condition 'the estimate is built from the accessor std documents as the allocation size'; the numeric equality "
  "with the allocator is a runtime quantity and is not decided.",
  TB + " Not decided: allocator rounding, hashbrown control bytes.", "DESIGN.md 3/C09")
E3TB = (TB + " E3 additionally trusts lmv/absmodels.py (abstract transformers of RawTable/core/std) and premise P-list (following the "
        "LRU link from the seal visits exactly the table's entries once), which is the undecided part of C07.")
P("C01", "proof", "abstract interpretation of MIR: relational linear domain + ghost table sums (inductive invariant)",
  "Inductive proof by abstract interpretation (lmv/absint.py): assuming current_size <= max_size and current_size = sum of recorded "
  "sizes on entry, every normal exit of every &mut-self public method, every constructor, clone and the drain protocol re-establishes "
  "current_size <= max_size, for symbolic sizes, limits and table contents (no bound on history length); every subtraction involving "
  "sizes is shown not to wrap and every addition (current_size += ..., size + growth, a rewritten fit test) is shown to stay <= "
  "usize::MAX for limits up to usize::MAX; the bound is also shown at every call into user code made while the cache is being "
  "modified (a caught panic there ends the operation; every later operation that returns must still see the bound), except user "
  "code run by mutate after its closure returned, where the value has already grown. All obligations must be discharged.",
  E3TB + " Assumes A-size (entry_size of one pair is representable).", "DESIGN.md 3/C01, 8.3")
P("C02", "proof", "abstract interpretation of MIR with ghost sum G(table) + term check of entry_size",
  "Inductive proof that current_size = sum of the sizes recorded in the table's entries at every normal exit (same run as C01), that "
  "every entry inserted into a table records heap_size(key)+heap_size(value)+size_of::<Entry>() (obligation at each table insert), that "
  "a mutated entry is re-recorded with its new size, and that entry_size is that very sum (term check).",
  E3TB + " A-clone is not assumed: clone copies recorded sizes (DESIGN.md 8.3).", "DESIGN.md 3/C02, 8.3")
P("C03", "other", "abstract interpretation (eviction-necessity obligations) + call-graph/who-may-evict + dominance rules",
  "Clauses decided: (1) the LRU-side entry is removed unasked only under insert, mutate and set_max_size (E3 events + call graph); "
  "(2) at every such eviction site the abstract state entails 'does not fit yet' (current_size + incoming size > limit), so an exact "
  "fit evicts nothing and the evicted run is minimal (sufficiency is C01); (3) the evicted key is read from the seal's LRU link in every "
  "iteration; (4) in insert the duplicate has left the table before any eviction, in mutate the entry is promoted before any eviction "
  "and the entry reached at the LRU end is provably not the mutated one (it is spared).",
  E3TB + " Not decided: that the seal's LRU link is the least recently used entry for every history (C05/C07).", "DESIGN.md 3/C03")
P("C10", "other", "abstract interpretation with partitioning on the returned enum (path-condition equivalences) + effect analysis",
  "Clauses decided: for insert and try_insert every exit partition's path condition implies the specified condition on "
  "(entry_size, max_size, current_size) and, the partitions being exhaustive, the classification is exact; error payload integers equal "
  "entry_size / max_size / max_size - current_size; the key and value in every error are the very arguments; on every Err exit "
  "current_size, max_size, the table's ghost sum, len, the table identity and the usage order (nothing was promoted) are unchanged; a "
  "successful try_insert adds exactly one entry; the additions on the way cannot exceed usize::MAX (a fit test that can overflow "
  "misclassifies); current_size equals the ghost sum at every exit and unwind point of every operation (shared with C02/C16: a stale "
  "current_size makes the next classification and free_memory wrong).", E3TB, "DESIGN.md 3/C10, 8.3, 8.5 round 6")
P("C11", "other", "abstract interpretation with ghost heap sizes of user values + dominance rules",
  "Clauses decided: mutate has exactly the exits Ok(None) (state unchanged, closure not reached), Ok(Some) (entry re-recorded with "
  "heap(key)+heap(value')+size_of and <= max_size; promoted on both branches, including a growth that fits (C05's hit-promotes records of mutate)) and Err(EntryTooLarge) (iff new size > max_size; payload "
  "sizes differ by the measured change; exactly one entry left; current_size released by the old size); one closure call site, dominated "
  "by the lookup hit.", E3TB, "DESIGN.md 3/C11")
P("C12", "other", "graph comparison of the four cursor state machines (mirror/sibling agreement) + exhaustion discipline + E3 post-states",
  "Partial. Decided: next/next_back of the borrowing and the taking iterator are mirror images of each other and siblings of one "
  "another (normalised MIR graphs); every yield path tests the exhaustion cursor first and nulls it when the cursors meet; wrappers "
  "delegate each direction to the same direction and project the right component; Drain leaves an empty usable cache (E3), owning "
  "iterators exhaust then clear_no_drop. Not decided: all-interleavings correctness of the two-cursor machine.",
  E3TB, "DESIGN.md 3/C12")
P("C13", "other", "abstract interpretation with a capacity ghost + effect analysis + guard/term rules",
  "Clauses decided: capacity operations leave current_size, max_size, size sum and len unchanged and the usage order intact, also on a refused try_reserve (E3; order records shared with C05); reserve/try_reserve exit with "
  "capacity >= len + additional; a failing try_reserve keeps the original table and runs no effect; growth on insertion only behind the "
  "failure edge of the no-grow insert and with the requested capacity max(2*capacity, 1); shrink_to reallocates only when "
  "capacity > max(len, min) and requests exactly that; no growing hashbrown primitive (insert/reserve/try_reserve/shrink_to) is ever "
  "called on a table of entries (it would move buckets under the intrusive list).", E3TB + " Not decided: hashbrown's bucket rounding (numeric constants of the growth bound).",
  "DESIGN.md 3/C13")
P("C14", "other", "abstract interpretation (clone post-state) + provenance analysis + term rules",
  "Clauses decided: the clone's current_size, max_size, len and size sum equal the source's and the source's are unchanged (E3, premise "
  "P-list); its table is requested with the source's capacity(); hash builder cloned; entries are Entry::clone of the visited ones in an "
  "order-preserving traversal; no pointer into the source survives in the clone (copied links overwritten before use); no write through "
  "a source-derived pointer (C19).", E3TB, "DESIGN.md 3/C14")
P("C16", "other", "enumeration of user-call sites with unwind-consistency flags + abstract interpretation at each site",
  "The crash points are the user-call sites (finite, from MIR). Decided at every site: current_size = sum of recorded sizes (E3); no "
  "table storage detached from the cache, no half-done accounting pair, no half-done list splice (pending flags); the cleanup path "
  "frees/empties no table that backs linked nodes; no bitwise-copied entry is live; for mutate/retain closures also current_size <= max_size.",
  E3TB + " Not decided: completeness of the flag set as a description of 'coherent'.", "DESIGN.md 3/C16")
P("C17", "other", "typestate rule 'no safety debt in Drop' + abstract interpretation of the constructor post-state",
  "Decided: every iterator type whose methods reach the bitwise copy-out primitive either owns the cache by value (forgetting it forgets "
  "the cache) or, if it holds &mut, its constructor already leaves the cache empty and detached (E3 post-state: size 0, no entries, "
  "seal reset) so that Drop owes nothing for soundness, and its step methods (next, next_back, ...) store neither a cache field nor a "
  "link of a list node (they cannot re-attach the cache to entries the iterator owns); borrowing iterators have no Drop and reach no "
  "writer.", E3TB, "DESIGN.md 3/C17, 8.5")
P("C05", "other", "abstract interpretation with must/may promotion ghosts + store-set comparison of the list primitives + call-graph who-may-promote",
  "Clauses decided: (1) only insert, try_insert, get, get_entry, get_lru, touch and mutate can move an entry to the MRU end, every "
  "other &mut method provably promotes nothing (may-ghost empty at every exit), operations through & write nothing (C19); (2) on every "
  "path of the promoting methods a found/inserted entry is spliced in at the MRU end before a success return (must-ghost), and failure "
  "exits (miss, rejected insertion) have promoted nothing; (3) the splice-in / unlink primitives write exactly the four / two links of "
  "a doubly-linked splice, and a node is spliced in only after it was unlinked or when it is new (no double link); (4) relocation and "
  "clone rebuild the list in traversal order.",
  E3TB + " Not decided: 'order of last access for every history' needs the list-shape invariant (C07).", "DESIGN.md 3/C05")
P("C07", "other", "abstract interpretation with pending-link ghosts + handle-validity (typestate) rules",
  "Partial. Decided: every entry inserted into the cache's table is linked before the method returns or user code runs; no link of the "
  "cache's nodes points into a table the cache does not own when a method returns or user code runs; handles obtained before a "
  "reallocation/removal are not dereferenced afterwards; relocation rebuilds both directions; seal allocated once, initialised to "
  "itself, freed once after the table was drained; iterator cursors are dereferenced only behind the null test; every entry is filed "
  "under the hash of its own key built with the hash builder of the cache that receives it; hashbrown never relocates buckets itself; a "
  "table returns to the cache only after its moved-out entries were marked empty; no node is linked twice. Not decided: the "
  "global list shape (mirror-image traversals of exactly len() entries) and aliasing-model UB.",
  E3TB, "DESIGN.md 3/C07")
P("C15", "other", "def-use term analysis of the retain loop (one unrolled iteration per path) + abstract interpretation",
  "Clauses decided on the MIR of retain (all paths through one loop iteration, as provenance terms): the cursor starts at the seal's LRU "
  "link and the loop stops at the seal; exactly one predicate call per visited entry, on that entry's own key and value; a removal "
  "happens iff the predicate returned false, exactly once, by that entry's key (so the ordinary removal path unlinks, subtracts the "
  "size and drops the pair); survivors are never relinked; the next cursor is the visited entry's LRU-side link. E3: current_size/len "
  "stay exact and the bound holds at the predicate call and at exit.",
  E3TB + " Not decided: exactly-once / order for every history needs the list-shape invariant (C07).", "DESIGN.md 3/C15")
P("C06", "other", "linearity (typestate) dataflow over MIR for by-value entries + path rules for sinks, copy-out protocol and teardown",
  "Entry has no drop glue, so the compiler neither drops nor forbids forgetting its key/value. Decided: every by-value Entry obtained "
  "from a table/iterator/copy-out is moved into a sink on every normal path (may-hold dataflow with discriminant sensitivity); the "
  "three sinks consume the key slot and the value slot exactly once per path; the bitwise copy-out primitive is used only by owning "
  "iterators whose Drop exhausts then clear_no_drop's, or by the relocation, which empties the source table without dropping on every "
  "path; clear_no_drop only after such a copy-out; cache Drop / clear drain the table through a sink, seal freed once afterwards; "
  "Entry::clone uses Clone::clone on the source's slots; no body overwrites the key/value slot of an entry behind a pointer or "
  "reference unless the previous content was dropped in place or taken out first (C06.6); a table handed back to the cache by an "
  "owning iterator's Drop is already marked empty, also when a private helper does the swap (judged with helpers inlined); the "
  "iterator types that copy entries out obey the two-cursor step rules of C12 (a double yield is a double drop).",
  TB + " Not decided: unwind paths (leaks allowed), K/V Drop impls.", "DESIGN.md 3/C06")
P("C04", "other", "term analysis of every table call site (hash/eq agreement) + abstract interpretation of insertion sites",
  "hashbrown does the probing; what lru-mem must get right is decided: every lookup/removal hashes k with the cache's own hash builder "
  "through the key-hash function and compares with the same k through Borrow+Eq; every table insert (and every caller that passes a "
  "precomputed hash) uses the hash of the inserted entry's own key; an entry is inserted into the cache's table only for a key the "
  "table just reported absent / removed, or into a table created empty by the operation (E3); a hash handed down together with an "
  "entry is built with the hash builder of the receiving cache; hashbrown never relocates buckets itself; results are projected from the one "
  "entry the lookup produced; a rejected insertion removed nothing, the duplicate leaves before eviction, reallocation keeps all "
  "entries (shared E3 obligations).", E3TB + " Not decided: hashbrown internals; Borrow coherence of user types.", "DESIGN.md 3/C04")
NOT_CLAIMED = {}
