"""Property registry: level, explanation, technique (also the source of MANIFEST.json)."""

PROPS = {}


def P(pid, level, technique, explanation, note, design_ref):
    PROPS[pid] = {"level": level, "technique": technique, "explanation": explanation, "note": note, "design_ref": design_ref}


TB = ("Trusted base: rustc's MIR for /repo's current tree (nightly, -Zmir-opt-level=0), the frozen model of external "
      "callees in lmv/models.py (hashbrown 0.14.5 RawTable, core, std), and the Python analyses in lmv/.")

P("C19", "other", "call-graph reachability + effect summaries over MIR (who-may-write)",
  "Structural clause decided: from every operation available through &LruCache (pub fns with a shared receiver, Clone::clone, "
  "Debug::fmt, and every method of the borrowing iterators) the resolved call graph (closure edges, type-driven trait edges, "
  "drop glue) reaches no body that writes a cache field, writes an Entry through a pointer, frees/copies out an Entry or calls a "
  "mutating RawTable method on memory that originates from the shared receiver; the cache/entry/handle/iterator types contain no "
  "interior mutability. Necessary for 'never writes': any such write is a write through &self.",
  TB + " Not decided: nothing else; 'observable state unchanged' follows from the absence of writes.", "DESIGN.md 3/C19")
P("C20", "other", "call-graph hash-cost counting with loop discipline over MIR",
  "Structural clause decided: hash sites (calls of Hash::hash on the key) are counted along acyclic call/CFG paths per public "
  "operation (<= 2 outside loops); a loop that reaches a hash site must retire (remove or relocate) one entry per iteration; "
  "only the table-rebuilding operations reach the per-held-entry rehash loop, once; traversals, clear, drain and the LRU/MRU peeks "
  "reach no hash site.",
  TB + " Not decided: cost of Eq comparisons / probe lengths.", "DESIGN.md 3/C20")
P("C18", "proof", "rustc accept/reject probes with compiling twins + impl-predicate facts",
  "Decided by rustc's own type and borrow checker: (1) the only unsafe auto-trait impls are Send/Sync for the cache with exactly "
  "K,V,S: Send resp. Sync; (2) generic positive probes compile; (3) six negative probes (a !Send resp. Send+!Sync witness in each "
  "parameter position) are rejected with E0277 on the marked line while their twins compile; (4) for every pub fn returning a "
  "borrow: all lifetimes of the return type are the receiver's, and generated programs that mutate or drop the cache while the "
  "result (or an item of a borrowing iterator) is alive are rejected with E0499/E0502/E0505, twins compile.",
  "Trusted base: rustc. Borrow probes instantiate K=V=String; the signature rule is instantiation-independent.", "DESIGN.md 3/C18")
P("C08", "other", "term algebra over MIR def-use (polynomial normal forms) + sibling agreement + call-graph cycle check + E0119 probe",
  "Structural clauses decided: mem_size's one blanket impl returns value_size+heap_size and cannot be overridden (E0119 witness); for "
  "every HeapSize impl the return term on every path is exactly the sum of one part per owned component prescribed for that std type "
  "(tuples by arity, Option/Result per variant, ranges, Wrapping, Box, slices/arrays, Vec/BinaryHeap/HashMap/HashSet incl. hasher, "
  "Mutex/RwLock); provided defaults are the element-wise sums; every bulk override is the lifting of the impl's own heap_size over fresh "
  "make_iter() calls; the array-flattening iterator's next/size_hint have the required shape; no same-instantiation recursion and no "
  "panic-capable callee on any size-estimation path.",
  TB + " Not decided: that std iterators yield each element once; arithmetic overflow of sums.", "DESIGN.md 3/C08")
P("C09", "other", "term algebra over MIR def-use: own-buffer term per std owner type",
  "Structural clause decided (partial): for every HeapSize impl of a std buffer owner the own-buffer term on every path is "
  "capacity() (byte buffers) or capacity() x size_of::<stored element>() with the right element type, exact-fit owners use the pointee's "
  "mem_size (Box) or as_bytes_with_nul().len() (CString), references contribute 0, and no length-derived term stands in for a buffer. "
  "This is the necessary condition 'the estimate is built from the accessor std documents as the allocation size'; the numeric equality "
  "with the allocator is a runtime quantity and is not decided.",
  TB + " Not decided: allocator rounding, hashbrown control bytes.", "DESIGN.md 3/C09")
NOT_CLAIMED = {}
