"""Checker self-validation (thorough tier): every seeded / selftest mutant of a property that still applies to the current tree
must be reported by that property's check, every behaviour-preserving variant must be silent.  Runs in scratch copies outside
/repo and /verif which are removed immediately; results go into the evidence only."""
import os, glob, json, shutil, subprocess, tempfile
from concurrent.futures import ThreadPoolExecutor
from .facts import VERIF


def _one(args):
    pid, name, patch, expect_alarm = args
    S = tempfile.mkdtemp(prefix="lmv-st.", dir="/tmp")
    try:
        repo = os.path.join(S, "repo")
        os.makedirs(repo)
        for f in ("Cargo.toml", "Cargo.lock", "src", "benches", "tests"):
            src = os.path.join("/repo", f)
            if os.path.isdir(src):
                shutil.copytree(src, os.path.join(repo, f))
            elif os.path.exists(src):
                shutil.copy(src, repo)
        subprocess.run(["git", "init", "-q", "."], cwd=repo, stdout=subprocess.DEVNULL, stderr=subprocess.DEVNULL)
        r = subprocess.run(["git", "apply", "--whitespace=nowarn", patch], cwd=repo, stdout=subprocess.PIPE, stderr=subprocess.PIPE)
        if r.returncode != 0:
            return {"name": name, "applied": False}
        env = dict(os.environ, LMV_EVIDENCE_DIR=os.path.join(S, "ev"), LMV_CACHE=os.path.join(S, "cache"), TMPDIR=S, LMV_NO_SELFTEST="1")
        out = subprocess.run([os.path.join(VERIF, "check"), pid, "--tier", "quick", "--repo", repo, "--quiet"], cwd=VERIF, env=env,
                             stdout=subprocess.PIPE, stderr=subprocess.PIPE, text=True)
        alarm = out.returncode != 0
        keys = []
        try:
            keys = json.load(open(os.path.join(S, "ev", pid + ".json")))["coverage"]["violation_keys"][:4]
        except Exception:
            pass
        return {"name": name, "applied": True, "alarm": alarm, "as_expected": alarm == expect_alarm, "keys": keys}
    finally:
        shutil.rmtree(S, ignore_errors=True)


def run(pid):
    items = []
    for d in sorted(glob.glob(os.path.join(VERIF, "seeded", pid + "-*"))):
        items.append((pid, "seeded/" + os.path.basename(d), os.path.join(d, "patch.diff"), True))
    for f in sorted(glob.glob(os.path.join(VERIF, "selftest", "mutants", pid + "-*.diff"))):
        items.append((pid, "mutant/" + os.path.basename(f)[:-5], f, True))
    for f in sorted(glob.glob(os.path.join(VERIF, "selftest", "benign", "*.diff"))):
        b = os.path.basename(f)
        if b.startswith(pid + "-") or b.startswith("ALL-"):
            items.append((pid, "benign/" + b[:-5], f, False))
    with ThreadPoolExecutor(max_workers=min(8, max(1, (os.cpu_count() or 4) // 2))) as ex:
        results = list(ex.map(_one, items))
    applied = [r for r in results if r.get("applied")]
    return {
        "cases": len(items),
        "applied": len(applied),
        "mutants_detected": sum(1 for r in applied if r["name"].split("/")[0] in ("seeded", "mutant") and r["alarm"]),
        "mutants_missed": [r["name"] for r in applied if r["name"].split("/")[0] in ("seeded", "mutant") and not r["alarm"]],
        "benign_silent": sum(1 for r in applied if r["name"].startswith("benign/") and not r["alarm"]),
        "benign_false_alarms": [r["name"] for r in applied if r["name"].startswith("benign/") and r["alarm"]],
        "details": results,
    }
