"""Loading and pretty-printing of the fact file written by driver/ (no analysis here)."""
import json, os, hashlib, subprocess, sys, time, tempfile, shutil

VERIF = os.path.dirname(os.path.dirname(os.path.abspath(__file__)))
REPO = os.environ.get("LMV_REPO", "/repo")


# ---------------------------------------------------------------- rendering
def place_str(p):
    s = "_%d" % p["l"]
    for e in p["p"]:
        k = e["k"]
        if k == "deref":
            s = "(*%s)" % s
        elif k == "field":
            s = "%s.%s" % (s, e["n"] if e.get("n") else e["i"])
        elif k == "downcast":
            s = "(%s as %s)" % (s, e.get("n") or e["v"])
        elif k == "index":
            s = "%s[_%d]" % (s, e["l"])
        else:
            s = "%s.<%s>" % (s, k)
    return s


def const_str(c):
    if "fn" in c:
        return c["fn"]["full"]
    if "int" in c:
        return "%s_%s" % (c["int"], c["ty"])
    return c.get("s", "?")


def op_str(o):
    if o["k"] in ("copy", "move"):
        return "%s %s" % (o["k"], place_str(o["place"]))
    if o["k"] == "const":
        return "const " + const_str(o["c"])
    return o.get("s", "?")


def rv_str(r):
    k = r["k"]
    if k == "use":
        return op_str(r["op"])
    if k == "ref":
        return "&%s%s" % ("mut " if r["mut"] else "", place_str(r["place"]))
    if k == "rawptr":
        return "&raw %s %s" % ("mut" if r["mut"] else "const", place_str(r["place"]))
    if k == "cast":
        return "%s as %s (%s)" % (op_str(r["op"]), r["ty"]["s"], r["kind"])
    if k == "binop":
        return "%s(%s, %s)" % (r["op"], op_str(r["a"]), op_str(r["b"]))
    if k == "unop":
        return "%s(%s)" % (r["op"], op_str(r["a"]))
    if k == "discr":
        return "discriminant(%s)" % place_str(r["place"])
    if k == "aggregate":
        ops = ", ".join(op_str(o) for o in r["ops"])
        a = r["agg"]
        if a == "adt":
            return "%s::%s{%s}" % (r["name"], r["vname"], ops)
        if a == "closure":
            return "closure %s[%s]" % (r["def"], ops)
        return "%s(%s)" % (a, ops)
    if k == "copyforderef":
        return "deref_copy %s" % place_str(r["place"])
    return r.get("s", k)


def stmt_str(s):
    k = s["k"]
    if k == "assign":
        return "%s = %s" % (place_str(s["place"]), rv_str(s["rv"]))
    if k == "setdiscr":
        return "discriminant(%s) = %d" % (place_str(s["place"]), s["v"])
    if k in ("live", "dead"):
        return "Storage%s(_%d)" % (k.capitalize(), s["l"])
    return s.get("s", k)


def term_str(t):
    k = t["k"]
    if k == "goto":
        return "goto -> bb%d" % t["target"]
    if k == "switch":
        return "switchInt(%s) -> [%s, otherwise: bb%d]" % (
            op_str(t["discr"]), ", ".join("%s: bb%d" % (v, b) for v, b in t["targets"]), t["otherwise"])
    if k == "call":
        return "%s = %s(%s) -> [return: %s, unwind: %s]" % (
            place_str(t["dest"]), op_str(t["func"]), ", ".join(op_str(a) for a in t["args"]),
            "bb%s" % t["target"] if t["target"] is not None else "!", t["unwind"])
    if k == "drop":
        return "drop(%s) -> [return: bb%d, unwind: %s]" % (place_str(t["place"]), t["target"], t["unwind"])
    if k == "assert":
        return "assert(%s%s, %s %s) -> [success: bb%d, unwind: %s]" % (
            "" if t["expected"] else "!", op_str(t["cond"]), t["msg"], t["detail"], t["target"], t["unwind"])
    return k


def span_str(sp):
    return "%s:%d:%d" % (sp["file"], sp["line"], sp["col"])


class Body:
    def __init__(self, j, idx):
        self.j = j
        self.idx = idx
        self.path = j["path"]
        self.kind = j["kind"]
        self.name = j.get("name")
        self.blocks = j["blocks"]
        self.locals = j["locals"]
        self.arg_count = j["arg_count"]
        self.span = j["span"]
        self.vis = j.get("vis")
        self.parent = j.get("parent")
        self.impl_trait = j.get("impl_trait")
        self.impl_self = j.get("impl_self")
        self.debug = j["debug"]
        self._names = None

    @property
    def is_closure(self):
        return self.kind == "closure"

    @property
    def file(self):
        return self.span["file"]

    def local_ty(self, l):
        return self.locals[l]["ty"]

    def local_name(self, l):
        if self._names is None:
            self._names = {}
            for d in self.debug:
                if not d["place"]["p"]:
                    self._names.setdefault(d["place"]["l"], d["name"])
        return self._names.get(l)

    def loc(self, bb, si=None):
        b = self.blocks[bb]
        if si is None or si >= len(b["stmts"]):
            return span_str(b["term"]["span"])
        s = b["stmts"][si]
        return span_str(s["span"]) if "span" in s else span_str(b["term"]["span"])

    def pretty(self):
        out = ["fn %s  [%s, %s]  // %s" % (self.path, self.kind, self.vis, span_str(self.span))]
        for i, l in enumerate(self.locals):
            nm = self.local_name(i)
            out.append("    let _%d: %s;%s" % (i, l["ty"]["s"], "  // " + nm if nm else ""))
        for bi, b in enumerate(self.blocks):
            out.append("  bb%d%s:" % (bi, " (cleanup)" if b["cleanup"] else ""))
            for s in b["stmts"]:
                if s["k"] in ("live", "dead"):
                    continue
                out.append("      " + stmt_str(s))
            out.append("      " + term_str(b["term"]))
        return "\n".join(out)


class Facts:
    def __init__(self, j, source=None):
        self.j = j
        self.source = source
        self.bodies = [Body(b, i) for i, b in enumerate(j["bodies"])]
        self.by_path = {}
        for b in self.bodies:
            self.by_path.setdefault(b.path, []).append(b)
        self.adts = {a["path"]: a for a in j["adts"]}
        self.impls = j["impls"]
        self.traits = {t["path"]: t for t in j["traits"]}

    def body(self, path):
        l = self.by_path.get(path)
        if not l:
            return None
        return l[0]

    def find(self, suffix):
        return [b for b in self.bodies if b.path.endswith(suffix)]


# ------------------------------------------------------------- extraction
def tree_hash(repo):
    h = hashlib.sha256()
    files = []
    for root in ("src",):
        for dp, dn, fn in os.walk(os.path.join(repo, root)):
            dn.sort()
            for f in sorted(fn):
                files.append(os.path.join(dp, f))
    for f in ("Cargo.toml", "Cargo.lock"):
        p = os.path.join(repo, f)
        if os.path.exists(p):
            files.append(p)
    for p in files:
        h.update(os.path.relpath(p, repo).encode())
        h.update(b"\0")
        with open(p, "rb") as fh:
            h.update(fh.read())
        h.update(b"\0")
    # the driver binary is part of the key: a rebuilt driver invalidates the cache
    drv = os.path.join(VERIF, "driver", "target", "release", "lmv-driver")
    if os.path.exists(drv):
        st = os.stat(drv)
        h.update(("%d:%d" % (st.st_size, int(st.st_mtime))).encode())
    return h.hexdigest()[:24]


def cache_dir():
    d = os.environ.get("LMV_CACHE") or os.path.join(VERIF, ".cache")
    os.makedirs(d, exist_ok=True)
    return d


def extract(repo=None, overflow_checks="on", use_cache=True):
    """Return (Facts, info).  Re-extracts whenever the tree hash changed."""
    repo = repo or REPO
    t0 = time.time()
    # (the extractor's own source is part of the key: a changed driver re-extracts)
    try:
        drv = hashlib.sha1(open(os.path.join(VERIF, "driver", "src", "main.rs"), "rb").read()).hexdigest()[:8]
    except OSError:
        drv = "nodrv"
    key = "%s-%s-%s" % (tree_hash(repo), overflow_checks, drv)
    path = os.path.join(cache_dir(), "facts-%s.json" % key)
    cached = use_cache and os.path.exists(path) and os.path.getsize(path) > 0
    if not cached:
        tmp = path + ".%d.part" % os.getpid()
        r = subprocess.run([os.path.join(VERIF, "extract.sh"), repo, tmp, overflow_checks],
                           stdout=subprocess.PIPE, stderr=subprocess.PIPE, text=True)
        if r.returncode != 0 or not os.path.exists(tmp):
            sys.stderr.write(r.stderr)
            raise ExtractionError("fact extraction failed for %s (rc=%s)" % (repo, r.returncode))
        os.replace(tmp, path)
        # keep the cache small: newest 12 files
        files = sorted((os.path.join(cache_dir(), f) for f in os.listdir(cache_dir()) if f.startswith("facts-")),
                       key=os.path.getmtime)
        for old in files[:-12]:
            try:
                os.remove(old)
            except OSError:
                pass
    with open(path) as fh:
        j = json.load(fh)
    f = Facts(j, source=path)
    info = {"tree_hash": key, "cached": bool(cached), "extract_s": round(time.time() - t0, 2),
            "bodies": len(f.bodies), "adts": len(f.adts), "impls": len(f.impls), "repo": repo}
    return f, info


class ExtractionError(Exception):
    pass


if __name__ == "__main__":
    f, info = extract()
    print(info, file=sys.stderr)
    for a in sys.argv[1:]:
        for b in f.bodies:
            if a in b.path:
                print(b.pretty())
                print()
