"""Abstract transformers for external callees (the E3 reading of lmv/models.py) and for user trait calls."""
from .lin import Lin, le, lt, eq, ge, gt, as_lin
from .models import norm
from .absint import vint, is_int, mkstruct, mkenum, RAWTABLE, St, Unsupported

MODELS = {}


def model(*names):
    def deco(f):
        for n in names:
            MODELS[n] = f
        return f
    return deco


def enum_sig(v, depth=0):
    if not isinstance(v, tuple) or depth > 3:
        return None
    if v[0] == "enum":
        inner = None
        if v[2] is not None:
            pay = v[3].get(v[2], {})
            inner = tuple(sorted((k, enum_sig(x, depth + 1)) for k, x in pay.items() if isinstance(x, tuple) and x[0] == "enum"))
        return (v[1], v[2], inner)
    return None


def option(variant, val=None):
    if variant == "Some":
        return ("enum", "std::option::Option", "Some", {"Some": {"0": val}})
    return ("enum", "std::option::Option", "None", {"None": {}})


def result(variant, val):
    return ("enum", "std::result::Result", variant, {variant: {"0": val}})


def variant_of(ip, st, v, names):
    """returns list of (variant name, state) partitions for an enum value with possibly unknown variant"""
    if v[0] == "enum" and v[2] is not None:
        return [(v[2], st)]
    return [(n, st.fork()) for n in names]


def payload(v, variant, field="0"):
    if v[0] == "enum":
        return v[3].get(variant, {}).get(field)
    return None


# ---------------------------------------------------------------------------------------- dispatch
def call_external(ip, fr, c, t, args, st):
    n = norm(c.resolved or c.nominal)
    dest_ty = t["dest"]["ty"]
    # user trait calls
    if c.user_kind and not (n in MODELS):
        return user_call(ip, fr, c, t, args, st)
    f = MODELS.get(n)
    if f is None:
        # some families by suffix
        for key, fn in SUFFIX_MODELS:
            if n.endswith(key) or key in n:
                f = fn
                break
    if f is not None:
        return f(ip, fr, c, t, args, st)
    if c.model is not None and not c.model.get("writes") and not c.model.get("closures") and not c.model.get("user"):
        # pure accessor without a dedicated transformer: unknown result, no effect
        return [(ip.fresh_of_ty(st, dest_ty, "ext"), st)]
    ip.unmodelled.add(n)
    st.notes.append("unmodelled external callee %s (result unknown, &mut arguments havocked)" % n)
    for a in args:
        if a[0] == "ptr":
            try:
                ip._store_at(st, a[1], a[2], ("unk", next(ip.ctr), "havoc"))
            except Exception:
                pass
    return [(ip.fresh_of_ty(st, dest_ty, "ext"), st)]


def user_call(ip, fr, c, t, args, st):
    """a call into user code (trait method on a generic parameter, or the user's closure)"""
    info = {"kind": c.user_kind, "callee": c.callee, "in": fr.body.path, "loc": c.loc, "chain": fr.chain, "bb": c.bb}
    h = ip.hooks.get("user_call")
    if h:
        h(ip, fr, c, st, info)
    ip.events.append(("user_call", info))
    dest_ty = t["dest"]["ty"]
    # a user call that receives `&mut x` may change the heap size of the opaque value x
    for i, a in enumerate(t["args"]):
        if a.get("k") not in ("copy", "move") or "&mut" not in a["place"]["ty"]:
            continue
        cands = [args[i]]
        if args[i][0] == "struct":
            cands = list(args[i][2].values())
        for pv in cands:
            if pv[0] != "ptr":
                continue
            try:
                tv = ip.load(st, *ip.resolve_ptr(st, pv))
            except Unsupported:
                tv = None
            if tv is not None and tv[0] == "opq":
                st.store[("H", tv[1])] = ip.fresh_int(st, "h")[1]
                # assumption A-size: entry_size of any (key, value) pair is representable in usize
                for eo, ev in st.store.items():
                    if eo[0] == "E" and isinstance(ev, tuple) and ev and ev[0] == "struct" and ev[1] == ip.r.entry and ev[2].get(ip.r.E_VAL) == tv:
                        kk = ev[2].get(ip.r.E_KEY)
                        if kk is not None and kk[0] == "opq":
                            szE = Lin.sym("sz[%s]" % ip.entry_ty_str())
                            st.num.add(le(heap_of(ip, st, kk[1]) + st.store[("H", tv[1])] + szE, Lin.sym("UM")))
    if c.user_kind == "clone" and args and args[0][0] == "ptr":
        tv = ip.load(st, *ip.resolve_ptr(st, args[0]))
        if tv[0] == "opq":
            # a clone is a new user value; whether it reports the same heap_size as the original is Clone's business (A-clone)
            nv = ("opq", next(ip.ctr))
            if getattr(ip, "assume_clone_same_size", False):
                st.store[("H", nv[1])] = heap_of(ip, st, tv[1])
            return [(nv, st)]
    if c.user_kind == "size":
        if c.name in ("heap_size", "mem_size") and args and args[0][0] == "ptr":
            tv = ip.load(st, *ip.resolve_ptr(st, args[0]))
            if tv[0] == "opq":
                h = heap_of(ip, st, tv[1])
                if c.name == "heap_size":
                    info["ret"] = h
                    return [(vint(h), st)]
                ty = c.fn["args"][0].get("s") if c.fn.get("args") else "?"
                sz = "sz[%s]" % ty
                st.num.add(ge(Lin.sym(sz), 0))
                info["ret"] = h + Lin.sym(sz)
                return [(vint(h + Lin.sym(sz)), st)]
        rv = ip.fresh_int(st, "usz")
        info["ret"] = rv[1]
        return [(rv, st)]
    if dest_ty in ("usize", "u64"):
        return [(ip.fresh_int(st, "u"), st)]
    if dest_ty == "bool":
        return [(("bunk", next(ip.ctr)), st)]
    if dest_ty == "()":
        return [(("unit",), st)]
    return [(("opq", next(ip.ctr)), st)]


def heap_of(ip, st, oid):
    """ghost: current heap size of an opaque user value"""
    k = ("H", oid)
    if k not in st.store:
        st.store[k] = ip.fresh_int(st, "h")[1]
    return st.store[k]


def call_closure(ip, fr, clos, cargs, st):
    """invoke a closure value (crate-local closure body) with already-untupled arguments; returns [(rv, st)]"""
    if clos[0] == "ptr":
        inner = ip.load(st, clos[1], clos[2])
        if inner[0] == "clos":
            envptr = clos
            clos = inner
        else:
            return None
    else:
        envptr = None
    if clos[0] == "fn":
        # a crate-local fn item passed where a closure is expected
        fb = None
        if isinstance(clos[1], dict):
            fb = ip.f.body(clos[1].get("full") or "") or ip.f.body(norm(clos[1].get("full") or ""))
        if fb is None:
            return None
        return ip.call_body(fb, list(cargs), st, fr.chain)
    if clos[0] != "clos":
        return None
    cb = ip.f.body(clos[1])
    if cb is None:
        return None
    env_ty = cb.local_ty(1)
    if env_ty.get("k") == "ref":
        if envptr is None:
            tmp = ip.new_oid("T")
            st.store[tmp] = clos
            envptr = ("ptr", tmp, ())
        a0 = envptr
    else:
        a0 = clos
    return ip.call_body(cb, [a0] + list(cargs), st, fr.chain)


def key_value_id(ip, st, clos):
    """id of the opaque key value an eq-closure compares with (the captured reference's pointee), or None"""
    try:
        if clos[0] == "ptr":
            clos = ip.load(st, *ip.resolve_ptr(st, clos))
        if clos[0] == "clos" and clos[2]:
            k = clos[2][0]
            if k[0] == "ptr":
                v = ip.load(st, *ip.resolve_ptr(st, k))
                if v[0] == "opq":
                    return v[1]
    except Exception:
        pass
    return None


def key_identity(ip, st, clos):
    """identity of the key an eq-closure compares with: the captured key reference"""
    try:
        if clos[0] == "ptr":
            clos = ip.load(st, *ip.resolve_ptr(st, clos))
        if clos[0] == "clos" and clos[2]:
            k = clos[2][0]
            return repr(k)
    except Exception:
        pass
    return None


def table_at(ip, st, ptr):
    """(oid, path, struct) of the RawTable a pointer argument refers to"""
    if ptr[0] != "ptr":
        return None
    oid, path = ip.resolve_ptr(st, ptr)
    v = ip.load(st, oid, path)
    if v[0] == "struct" and v[1] == RAWTABLE:
        if not is_int(v[2].get("N")):
            return None
        return oid, path, v
    if v[0] == "unk":
        # an unknown table (e.g. behind an iterator field): give it ghost state
        tv = ip.new_table(st, ip.fresh_int(st, "N")[1], ip.fresh_int(st, "G")[1])
        ip._store_at(st, oid, path, tv)
        return oid, path, tv
    return None


def set_table(ip, st, loc, f):
    oid, path, _ = loc
    ip._store_at(st, oid, path, ("struct", RAWTABLE, f))


def tcap(ip, st, f):
    """capacity ghost of a table struct (created on demand: cap >= N)"""
    if "cap" not in f or not is_int(f["cap"]):
        f["cap"] = ip.fresh_int(st, "cap")
    st.num.add(ge(f["cap"][1], f["N"][1]))
    return f["cap"]


def run_eq_closure(ip, fr, closure, tid, st):
    """the eq/hasher closure handed to a table primitive runs user code: execute it once on a scratch copy of the state
    with an arbitrary element, only for its hooks (user-call events)"""
    s2 = st.fork()
    try:
        e = ip.new_entry_obj(s2, tid)
        call_closure(ip, fr, closure, [("ptr", e, ())], s2)
    except Unsupported:
        pass


# ---------------------------------------------------------------------------------------- RawTable
@model("hashbrown::raw::RawTable::new", "<hashbrown::raw::RawTable<T, A> as std::default::Default>::default")
def m_table_new(ip, fr, c, t, args, st):
    tv = ip.new_table(st)
    f = dict(tv[2])
    f["cap"] = ip.fresh_int(st, "cap")
    return [(("struct", RAWTABLE, f), st)]


@model("hashbrown::raw::RawTable::with_capacity")
def m_table_with_capacity(ip, fr, c, t, args, st):
    tv = ip.new_table(st)
    f = dict(tv[2])
    f["cap"] = ip.fresh_int(st, "cap")
    if is_int(args[0]):
        st.num.add(ge(f["cap"][1], args[0][1]))
        f["#req"] = args[0]
        ip.events.append(("table_alloc", {"state": st.fork(), "request": args[0][1], "chain": fr.chain, "loc": c.loc, "in": fr.body.path}))
    return [(("struct", RAWTABLE, f), st)]


@model("hashbrown::raw::RawTable::try_with_capacity")
def m_table_try_with_capacity(ip, fr, c, t, args, st):
    s_err = st.fork()
    ok = m_table_with_capacity(ip, fr, c, t, args, st)
    return [(result("Ok", ok[0][0]), ok[0][1]), (result("Err", ("unk", next(ip.ctr), "TryReserveError")), s_err)]


@model("hashbrown::raw::RawTable::len")
def m_table_len(ip, fr, c, t, args, st):
    loc = table_at(ip, st, args[0])
    if loc is None:
        return [(ip.fresh_int(st, "len"), st)]
    return [(loc[2][2]["N"], st)]


@model("hashbrown::raw::RawTable::capacity")
def m_table_capacity(ip, fr, c, t, args, st):
    loc = table_at(ip, st, args[0])
    if loc is None:
        return [(ip.fresh_int(st, "cap"), st)]
    f = dict(loc[2][2])
    cap = tcap(ip, st, f)
    set_table(ip, st, loc, f)
    return [(cap, st)]


def _find_like(ip, fr, c, t, args, st, wrap):
    loc = table_at(ip, st, args[0])
    if len(args) > 2:
        run_eq_closure(ip, fr, args[2], loc[2][2].get("#tid") if loc else None, st)
    if loc is None:
        return [(("unk", next(ip.ctr), "find"), st)]
    f = loc[2][2]
    s_none = st.fork()
    kv_id = key_value_id(ip, st, args[2]) if len(args) > 2 else None
    if kv_id is not None and f.get("#tid") in ip.cache_tids(st):
        ip.gadd(s_none, "absent_keys", kv_id)      # the table reported no element for this key
    # Some: an element of the table
    size = ip.fresh_int(st, "s")
    st.num.add(le(size[1], f["G"][1]))
    st.num.add(ge(f["N"][1], 1))
    e = ip.new_entry_obj(st, f.get("#tid"), size)
    kid = key_identity(ip, st, args[2]) if len(args) > 2 else None
    if kid is not None:
        st.store[("F", kid)] = e
    ip.gadd(st, "found", e)
    ip.gadd(st, "pending", e)
    return [(option("Some", wrap(("ptr", e, ()))), st), (option("None"), s_none)]


@model("hashbrown::raw::RawTable::find")
def m_table_find(ip, fr, c, t, args, st):
    return _find_like(ip, fr, c, t, args, st, lambda p: mkstruct("hashbrown::raw::Bucket", {"ptr": p}))


@model("hashbrown::raw::RawTable::get", "hashbrown::raw::RawTable::get_mut")
def m_table_get(ip, fr, c, t, args, st):
    return _find_like(ip, fr, c, t, args, st, lambda p: p)


def stale_entries(ip, st, tid, keep=()):
    for oid, v in list(st.store.items()):
        if oid in keep:
            continue
        if oid[0] == "C" and isinstance(v, tuple) and v and v[0] == "cursor" and v[1].get("tid") == tid and v[1].get("res") is None \
                and not v[1].get("stale"):
            # a handle read off a link before this removal and not yet looked at: it may designate the bucket that was just vacated
            c2 = dict(v[1])
            c2["stale"] = True
            st.store[oid] = ("cursor", c2)
            continue
        if isinstance(v, tuple) and v and v[0] == "struct" and v[1] == ip.r.entry and v[2].get("#tid") == tid and oid[0] == "E":
            f = dict(v[2])
            f["#tid"] = ("stale", tid)
            st.store[oid] = ("struct", v[1], f)


@model("hashbrown::raw::RawTable::remove_entry")
def m_table_remove_entry(ip, fr, c, t, args, st):
    loc = table_at(ip, st, args[0])
    if len(args) > 2:
        run_eq_closure(ip, fr, args[2], loc[2][2].get("#tid") if loc else None, st)
    if loc is None:
        return [(("unk", next(ip.ctr), "remove_entry"), st)]
    # whose key is being removed?  (a key living inside the entry at the LRU end = an eviction / remove_lru)
    lru = False
    mru = False
    try:
        clos = args[2]
        if clos[0] == "ptr":
            clos = ip.load(st, *ip.resolve_ptr(st, clos))
        if clos[0] == "clos" and clos[2] and clos[2][0][0] == "ptr":
            ko = clos[2][0][1]
            ev = st.store.get(ko)
            if ko[0] == "E" and ev is not None and ev[0] == "struct" and ev[2].get("#cur"):
                cur = ev[2]["#cur"]
                if cur.get("first"):
                    lru = cur["dir"] == ip.r.L_LRU
                    mru = cur["dir"] == ip.r.L_MRU
    except Exception:
        pass
    distinct = ()
    try:
        if ko[0] == "E" and ev is not None:
            distinct = tuple(ev[2].get("#distinct") or ())
    except Exception:
        distinct = ()
    ip.events.append(("table_remove", {"state": st.fork(), "lru": lru, "mru": mru, "chain": fr.chain, "loc": c.loc, "in": fr.body.path,
                                       "distinct": distinct}))
    if not lru and not mru:
        ip.gadd(st, "keyed_removal_done", "yes")     # (both outcomes: the key is gone from the table afterwards)
        kv_id = key_value_id(ip, st, args[2]) if len(args) > 2 else None
        if kv_id is not None:
            ip.gadd(st, "absent_keys", kv_id)
    s_none = st.fork()
    f = dict(loc[2][2])
    # which entry?  Keys are unique in the table (C04.2), so a removal by the key that a lookup in this very state found, or by the
    # key stored inside a materialised entry of this table, removes that entry.
    known = None
    try:
        clos = args[2]
        if clos[0] == "ptr":
            clos = ip.load(st, *ip.resolve_ptr(st, clos))
        if clos[0] == "clos" and clos[2]:
            kv = clos[2][0]
            if kv[0] == "ptr" and kv[1][0] == "E":
                known = kv[1]
            else:
                known = st.store.get(("F", repr(kv)))
    except Exception:
        known = None
    kent = st.store.get(known) if known is not None else None
    if kent is not None and kent[0] == "struct" and kent[2].get("#tid") == f.get("#tid") and is_int(kent[2].get(ip.r.E_SIZE)):
        ip.gdel(st, "found", known)
        ip.gdel(st, "unlinked", known)
        ip.gdel(st, "unhinged", known)
        ip.gdel(st, "pending", known)
        ip.gdel(st, "promoted", known)
        keep = kent[2].get("#distinct") or ()       # entries proved to be other entries than the removed one: their buckets stay put
        size = kent[2][ip.r.E_SIZE]
        k, v = kent[2].get(ip.r.E_KEY), kent[2].get(ip.r.E_VAL)
        st.num.add(le(size[1], f["G"][1]))
        fresh_entry = False
    else:
        size = ip.fresh_int(st, "s")
        k, v = ("opq", next(ip.ctr)), ("opq", next(ip.ctr))
        st.num.add(le(size[1], f["G"][1]))
        fresh_entry = True
        keep = ()
    st.num.add(ge(f["N"][1], 1))
    f["G"] = vint(f["G"][1] - size[1])
    f["N"] = vint(f["N"][1] - 1)
    set_table(ip, st, loc, f)
    stale_entries(ip, st, f.get("#tid"), keep)
    ent = mkstruct(ip.r.entry, {ip.r.E_SIZE: size, ip.r.E_KEY: k, ip.r.E_VAL: v,
                                "#tid": None, "#cur": None, "#removed_from": f.get("#tid")})
    if fresh_entry:
        ip.assume_entry_inv(st, size, k, v)
    return [(option("Some", ent), st), (option("None"), s_none)]


def _insert(ip, st, loc, entry, fr=None, c=None):
    # C04.2: an insertion into a cache's own table must be justified (key known absent / table built afresh)
    tid_ = loc[2][2].get("#tid")
    if fr is not None and tid_ in ip.cache_tids(st):
        kid = None
        if entry[0] == "struct":
            kv = entry[2].get(ip.r.E_KEY)
            if kv is not None and kv[0] == "opq":
                kid = kv[1]
        just = None
        if kid is not None and kid in ip.gset(st, "absent_keys"):
            just = "the table reported this very key absent / removed it beforehand"
        elif tid_ != ("tid", 0):
            just = "the table was created empty by this operation and is filled from a traversal of distinct entries"
        ip.events.append(("table_insert", {"justified": just, "chain": fr.chain, "loc": c.loc if c else None, "in": fr.body.path}))
    if entry[0] == "struct" and fr is not None:
        inv = ip.entry_inv(st, entry[2].get(ip.r.E_SIZE), entry[2].get(ip.r.E_KEY, ("?",)), entry[2].get(ip.r.E_VAL, ("?",)))
        key = ("entry_inv_at_insert", fr.chain, c.loc if c else None)
        if inv is None:
            ip.obligs[key] = {"ok": False, "desc": "the size recorded in an inserted entry is entry_size(key, value)", "failed":
                              ["size/key/value of the inserted entry are not tracked values"], "loc": c.loc if c else None, "chain": fr.chain, "vacuous": False}
        else:
            ip.oblige(key, st, [inv], "the size recorded in an inserted entry is heap(key) + heap(value) + size_of::<Entry>()",
                      loc=c.loc if c else None, chain=fr.chain)
    f = dict(loc[2][2])
    sz = entry[2].get(ip.r.E_SIZE) if entry[0] == "struct" else None
    if not is_int(sz):
        sz = ip.fresh_int(st, "s")
    f["G"] = vint(f["G"][1] + sz[1])
    f["N"] = vint(f["N"][1] + 1)
    if "cap" in f and is_int(f["cap"]):
        old = f["cap"][1]
        nc = ip.fresh_int(st, "cap")
        st.num.add(ge(nc[1], old))
        st.num.add(le(nc[1], old + 1))
        st.num.add(ge(nc[1], f["N"][1]))
        f["cap"] = nc
    set_table(ip, st, loc, f)
    e = ip.new_oid("E")
    ef = dict(entry[2]) if entry[0] == "struct" else {}
    ef[ip.r.E_SIZE] = sz
    ef["#tid"] = f.get("#tid")
    ef["#cur"] = None
    st.store[e] = ("struct", ip.r.entry, ef)
    if f.get("#tid") in ip.cache_tids(st):
        ip.gadd(st, "unlinked", e)      # in the cache's table but not yet in its list
    return mkstruct("hashbrown::raw::Bucket", {"ptr": ("ptr", e, ())})


@model("hashbrown::raw::RawTable::try_insert_no_grow")
def m_table_try_insert_no_grow(ip, fr, c, t, args, st):
    loc = table_at(ip, st, args[0])
    entry = args[2]
    if loc is None:
        return [(("unk", next(ip.ctr), "try_insert"), st)]
    s_err = st.fork()
    # Err: no growth room left (capacity() == len()), value handed back, no effect
    loc_e = table_at(ip, s_err, args[0])
    fe = dict(loc_e[2][2])
    cap = tcap(ip, s_err, fe)
    s_err.num.add(eq(cap[1], fe["N"][1]))
    set_table(ip, s_err, loc_e, fe)
    b = _insert(ip, st, loc, entry, fr, c)
    outs = [(result("Ok", b), st)]
    if s_err.num.feasible():
        outs.append((result("Err", entry), s_err))
    return outs


@model("hashbrown::raw::RawTable::insert", "hashbrown::raw::RawTable::insert_no_grow")
def m_table_insert(ip, fr, c, t, args, st):
    loc = table_at(ip, st, args[0])
    if len(args) > 3:
        run_eq_closure(ip, fr, args[3], loc[2][2].get("#tid") if loc else None, st)
    if loc is None:
        return [(("unk", next(ip.ctr), "insert"), st)]
    return [(_insert(ip, st, loc, args[2], fr, c), st)]


@model("hashbrown::raw::RawTable::clear_no_drop")
def m_table_clear_no_drop(ip, fr, c, t, args, st):
    loc = table_at(ip, st, args[0])
    if loc is not None:
        f = dict(loc[2][2])
        f["G"] = vint(0)
        f["N"] = vint(0)
        set_table(ip, st, loc, f)
        stale_entries(ip, st, f.get("#tid"))
    return [(("unit",), st)]


@model("hashbrown::raw::RawTable::drain")
def m_table_drain(ip, fr, c, t, args, st):
    loc = table_at(ip, st, args[0])
    if loc is None:
        return [(("unk", next(ip.ctr), "drain"), st)]
    f = dict(loc[2][2])
    it = mkstruct("hashbrown::raw::RawDrain", {"R": f["G"], "Rn": f["N"], "#from": f.get("#tid")})
    f["G"] = vint(0)
    f["N"] = vint(0)
    set_table(ip, st, loc, f)
    stale_entries(ip, st, f.get("#tid"))
    return [(it, st)]


@model("<hashbrown::raw::RawTable<T, A> as std::iter::IntoIterator>::into_iter")
def m_table_into_iter(ip, fr, c, t, args, st):
    tv = args[0]
    if tv[0] == "struct" and tv[1] == RAWTABLE:
        return [(mkstruct("hashbrown::raw::RawIntoIter", {"R": tv[2]["G"], "Rn": tv[2]["N"], "#from": tv[2].get("#tid")}), st)]
    return [(("unk", next(ip.ctr), "into_iter"), st)]


@model("<hashbrown::raw::RawDrain<'_, T, A> as std::iter::Iterator>::next", "<hashbrown::raw::RawIntoIter<T, A> as std::iter::Iterator>::next")
def m_rawiter_next(ip, fr, c, t, args, st):
    p = args[0]
    if p[0] != "ptr":
        return [(("unk", next(ip.ctr), "next"), st)]
    oid, path = ip.resolve_ptr(st, p)
    it = ip.load(st, oid, path)
    if not (it[0] == "struct" and is_int(it[2].get("R"))):
        return [(("unk", next(ip.ctr), "next"), st)]
    s_none = st.fork()
    s_none.num.add(eq(it[2]["R"][1], 0))
    s_none.num.add(eq(it[2]["Rn"][1], 0))
    size = ip.fresh_int(st, "s")
    st.num.add(le(size[1], it[2]["R"][1]))
    st.num.add(ge(it[2]["Rn"][1], 1))
    f = dict(it[2])
    f["R"] = vint(it[2]["R"][1] - size[1])
    f["Rn"] = vint(it[2]["Rn"][1] - 1)
    ip._store_at(st, oid, path, ("struct", it[1], f))
    k, v = ("opq", next(ip.ctr)), ("opq", next(ip.ctr))
    ent = mkstruct(ip.r.entry, {ip.r.E_SIZE: size, ip.r.E_KEY: k, ip.r.E_VAL: v, "#tid": None, "#cur": None})
    ip.assume_entry_inv(st, size, k, v)
    outs = [(option("Some", ent), st)]
    if s_none.num.feasible():
        outs.append((option("None"), s_none))
    return outs


@model("hashbrown::raw::Bucket::as_ptr")
def m_bucket_as_ptr(ip, fr, c, t, args, st):
    b = args[0]
    if b[0] == "ptr":
        b = ip.load(st, *ip.resolve_ptr(st, b))
    if b[0] == "struct" and "ptr" in b[2]:
        return [(b[2]["ptr"], st)]
    return [(("punk", next(ip.ctr)), st)]


@model("hashbrown::raw::Bucket::as_ref", "hashbrown::raw::Bucket::as_mut")
def m_bucket_as_ref(ip, fr, c, t, args, st):
    return m_bucket_as_ptr(ip, fr, c, t, args, st)


# ---------------------------------------------------------------------------------------- mem / ptr / Box / MaybeUninit
@model("std::mem::swap")
def m_swap(ip, fr, c, t, args, st):
    a, b = args[0], args[1]
    if a[0] == "ptr" and b[0] == "ptr":
        la = ip.resolve_ptr(st, a)
        lb = ip.resolve_ptr(st, b)
        va = ip.load(st, *la)
        vb = ip.load(st, *lb)
        ip.write(st, la[0], la[1], vb)
        ip.write(st, lb[0], lb[1], va)
        installed = ip.cache_tids(st)
        st.store[("G", "l2l")] = frozenset(x for x in ip.gset(st, "l2l") if x not in installed)
    return [(("unit",), st)]


@model("std::mem::replace")
def m_replace(ip, fr, c, t, args, st):
    a = args[0]
    if a[0] == "ptr":
        la = ip.resolve_ptr(st, a)
        old = ip.load(st, *la)
        ip.write(st, la[0], la[1], args[1])
        return [(old, st)]
    return [(("unk", next(ip.ctr), "replace"), st)]


@model("std::mem::take")
def m_take(ip, fr, c, t, args, st):
    a = args[0]
    if a[0] == "ptr":
        la = ip.resolve_ptr(st, a)
        old = ip.load(st, *la)
        if old[0] == "struct" and old[1] == RAWTABLE:
            new = m_table_new(ip, fr, c, t, [], st)[0][0]
        else:
            new = ("unk", next(ip.ctr), "default")
        ip.write(st, la[0], la[1], new)
        return [(old, st)]
    return [(("unk", next(ip.ctr), "take"), st)]


@model("std::mem::size_of")
def m_size_of(ip, fr, c, t, args, st):
    ty = c.fn["args"][0].get("s") if c.fn.get("args") else "?"
    s = "sz[%s]" % ty
    st.num.add(ge(Lin.sym(s), 0))
    st.num.add(le(Lin.sym(s), Lin.sym("UM")))
    return [(vint(Lin.sym(s)), st)]


@model("std::mem::forget", "std::mem::drop")
def m_forget(ip, fr, c, t, args, st):
    return [(("unit",), st)]


@model("std::boxed::Box::new")
def m_box_new(ip, fr, c, t, args, st):
    o = ip.new_oid("B")
    st.store[o] = args[0]
    return [(("ptr", o, ()), st)]


@model("std::boxed::Box::into_raw", "std::boxed::Box::from_raw")
def m_box_id(ip, fr, c, t, args, st):
    return [(args[0], st)]


@model("std::ptr::null_mut", "std::ptr::null")
def m_null(ip, fr, c, t, args, st):
    return [(("null",), st)]


@model("std::ptr::mut_ptr::<impl *mut T>::is_null", "std::ptr::const_ptr::<impl *const T>::is_null")
def m_is_null(ip, fr, c, t, args, st):
    p = args[0]
    if p[0] == "null":
        return [(("bool", True), st)]
    if p[0] == "ptr":
        return [(("bool", False), st)]
    return [(("bunk", next(ip.ctr)), st)]


@model("std::ptr::read", "std::ptr::mut_ptr::<impl *mut T>::read", "std::ptr::const_ptr::<impl *const T>::read",
       "std::ptr::read_unaligned", "std::ptr::read_volatile")
def m_ptr_read(ip, fr, c, t, args, st):
    p = args[0]
    if p[0] == "ptr":
        v = ip.load(st, *ip.resolve_ptr(st, p))
        return [(v, st)]
    return [(ip.fresh_of_ty(st, t["dest"]["ty"], "read"), st)]


@model("std::ptr::write", "std::ptr::mut_ptr::<impl *mut T>::write", "std::ptr::write_unaligned",
       "std::ptr::mut_ptr::<impl *mut T>::write_unaligned", "std::ptr::write_volatile")
def m_ptr_write(ip, fr, c, t, args, st):
    """*p = v without dropping the old value: a plain store as far as this model is concerned"""
    p, v = args[0], args[1]
    if p[0] == "ptr":
        try:
            oid, path = ip.resolve_ptr(st, p, for_write=True)
            ip.write(st, oid, path, v)
        except Unsupported:
            pass
    return [(("unit",), st)]


@model("std::ptr::drop_in_place", "std::mem::MaybeUninit::assume_init_drop", "std::ptr::mut_ptr::<impl *mut T>::drop_in_place")
def m_drop_in_place(ip, fr, c, t, args, st):
    info = {"kind": "drop", "callee": "drop_in_place", "in": fr.body.path, "loc": c.loc, "chain": fr.chain, "bb": c.bb}
    ip.events.append(("user_drop", info))
    return [(("unit",), st)]


@model("std::mem::MaybeUninit::new", "std::mem::MaybeUninit::assume_init", "std::mem::MaybeUninit::assume_init_ref",
       "std::mem::MaybeUninit::assume_init_mut", "std::mem::MaybeUninit::as_mut_ptr", "std::mem::MaybeUninit::as_ptr",
       "<I as std::iter::IntoIterator>::into_iter", "std::iter::Iterator::by_ref",
       "std::clone::impls::<impl std::clone::Clone for usize>::clone")
def m_identity(ip, fr, c, t, args, st):
    v = args[0]
    n = norm(c.resolved or c.nominal)
    if n.endswith("Clone for usize>::clone") and v[0] == "ptr":
        v = ip.load(st, *ip.resolve_ptr(st, v))
    return [(v, st)]


@model("std::mem::MaybeUninit::uninit")
def m_uninit(ip, fr, c, t, args, st):
    return [(("unk", next(ip.ctr), "uninit"), st)]


@model("std::mem::MaybeUninit::assume_init_read")
def m_assume_init_read(ip, fr, c, t, args, st):
    return m_ptr_read(ip, fr, c, t, args, st)


# ---------------------------------------------------------------------------------------- Option / Result / Try
def _opt_parts(ip, st, v):
    return variant_of(ip, st, v, ["None", "Some"])


@model("std::option::Option::map")
def m_option_map(ip, fr, c, t, args, st):
    outs = []
    for (vn, s) in _opt_parts(ip, st, args[0]):
        if vn == "None":
            outs.append((option("None"), s))
        else:
            x = payload(args[0], "Some")
            if x is None:
                x = ("unk", next(ip.ctr), "some")
            r = call_closure(ip, fr, args[1], [x], s)
            if r is None:
                info = {"kind": "closure", "callee": "closure passed to Option::map", "in": fr.body.path, "loc": c.loc, "chain": fr.chain, "bb": c.bb}
                ip.events.append(("user_call", info))
                outs.append((option("Some", ("unk", next(ip.ctr), "mapped")), s))
            else:
                for (rv, s2) in r:
                    outs.append((option("Some", rv), s2))
    return outs


@model("std::option::Option::unwrap", "std::option::Option::expect", "std::option::Option::unwrap_unchecked")
def m_option_unwrap(ip, fr, c, t, args, st):
    v = args[0]
    if v[0] == "enum" and v[2] == "None":
        return []
    x = payload(v, "Some")
    if x is None:
        x = ip.fresh_of_ty(st, t["dest"]["ty"], "unwrap")
    return [(x, st)]


@model("std::option::Option::is_some", "std::option::Option::is_none")
def m_option_is_some(ip, fr, c, t, args, st):
    v = args[0]
    if v[0] == "ptr":
        v = ip.load(st, *ip.resolve_ptr(st, v))
    want = norm(c.resolved or c.nominal).endswith("is_some")
    outs = []
    for (vn, s) in _opt_parts(ip, st, v):
        outs.append((("bool", (vn == "Some") == want), s))
    return outs


@model("std::option::Option::ok_or")
def m_option_ok_or(ip, fr, c, t, args, st):
    outs = []
    for (vn, s) in _opt_parts(ip, st, args[0]):
        if vn == "Some":
            outs.append((result("Ok", payload(args[0], "Some") or ("unk", next(ip.ctr), "some")), s))
        else:
            outs.append((result("Err", args[1]), s))
    return outs


@model("std::result::Result::unwrap", "std::result::Result::expect", "std::result::Result::unwrap_unchecked")
def m_result_unwrap(ip, fr, c, t, args, st):
    v = args[0]
    if v[0] == "enum" and v[2] == "Err":
        return []
    x = payload(v, "Ok")
    if x is None:
        x = ip.fresh_of_ty(st, t["dest"]["ty"], "unwrap")
    return [(x, st)]


@model("<std::result::Result<T, E> as std::ops::Try>::branch")
def m_try_branch(ip, fr, c, t, args, st):
    outs = []
    v = args[0]
    for (vn, s) in variant_of(ip, st, v, ["Ok", "Err"]):
        if vn == "Ok":
            x = payload(v, "Ok") or ("unk", next(ip.ctr), "ok")
            outs.append((("enum", "std::ops::ControlFlow", "Continue", {"Continue": {"0": x}}), s))
        else:
            e = payload(v, "Err") or ("unk", next(ip.ctr), "err")
            outs.append((("enum", "std::ops::ControlFlow", "Break", {"Break": {"0": result("Err", e)}}), s))
    return outs


@model("<std::result::Result<T, F> as std::ops::FromResidual<std::result::Result<std::convert::Infallible, E>>>::from_residual")
def m_from_residual(ip, fr, c, t, args, st):
    v = args[0]
    e = payload(v, "Err") or ("unk", next(ip.ctr), "err")
    # From<E> for F: crate-local impl?
    a = [x for x in c.fn.get("args", []) if x.get("k") not in ("region",)]
    F = E = None
    try:
        # generic args of the trait method: [Self = Result<T, F>, R = Result<Infallible, E>]
        F = [x for x in a[0]["args"] if x.get("k") != "region"][1]
        E = [x for x in a[1]["args"] if x.get("k") != "region"][1]
    except Exception:
        pass
    if F and E and F.get("s") != E.get("s") and F.get("k") == "adt" and F.get("local"):
        for b in ip.f.bodies:
            if b.impl_trait == "std::convert::From" and b.name == "from" and b.impl_self and b.impl_self.get("name") == F["name"]:
                ins = b.j.get("inputs") or []
                if ins and E.get("k") == "adt" and ins[0].get("k") == "adt" and ins[0]["name"] == E["name"]:
                    outs = []
                    for (rv, s2) in ip.call_body(b, [e], st, fr.chain):
                        outs.append((result("Err", rv), s2))
                    return outs
    return [(result("Err", e), st)]


# ---------------------------------------------------------------------------------------- integers
@model("core::num::<impl usize>::checked_add")
def m_checked_add(ip, fr, c, t, args, st):
    a, b = args
    if is_int(a) and is_int(b):
        UM = Lin.sym("UM")
        s_none = st.fork()
        st.num.add(le(a[1] + b[1], UM))             # Some(a + b) iff the sum is representable
        s_none.num.add(gt(a[1] + b[1], UM))
        outs = []
        if st.num.feasible():
            outs.append((option("Some", vint(a[1] + b[1])), st))
        if s_none.num.feasible():
            outs.append((option("None"), s_none))
        return outs
    return [(("unk", next(ip.ctr), "checked_add"), st)]


@model("core::num::<impl usize>::checked_sub")
def m_checked_sub(ip, fr, c, t, args, st):
    a, b = args
    if is_int(a) and is_int(b):
        s_none = st.fork()
        st.num.add(ge(a[1], b[1]))
        s_none.num.add(lt(a[1], b[1]))
        outs = []
        if st.num.feasible():
            outs.append((option("Some", vint(a[1] - b[1])), st))
        if s_none.num.feasible():
            outs.append((option("None"), s_none))
        return outs
    return [(("unk", next(ip.ctr), "checked_sub"), st)]


@model("core::num::<impl usize>::saturating_sub")
def m_saturating_sub(ip, fr, c, t, args, st):
    a, b = args
    if is_int(a) and is_int(b):
        s2 = st.fork()
        st.num.add(ge(a[1], b[1]))
        s2.num.add(lt(a[1], b[1]))
        outs = []
        if st.num.feasible():
            outs.append((vint(a[1] - b[1]), st))
        if s2.num.feasible():
            outs.append((vint(0), s2))
        return outs
    return [(ip.fresh_int(st, "satsub"), st)]


@model("core::num::<impl usize>::saturating_add", "core::num::<impl usize>::wrapping_add")
def m_saturating_add(ip, fr, c, t, args, st):
    a, b = args
    if is_int(a) and is_int(b):
        UM = Lin.sym("UM")
        wrapping = norm(c.resolved or c.nominal).endswith("wrapping_add")
        s2 = st.fork()
        st.num.add(le(a[1] + b[1], UM))
        s2.num.add(gt(a[1] + b[1], UM))
        outs = []
        if st.num.feasible():
            outs.append((vint(a[1] + b[1]), st))
        if s2.num.feasible():
            # not representable: the result is usize::MAX (saturating) resp. the sum modulo 2^bits (wrapping) -- not the sum
            outs.append((vint(a[1] + b[1] - UM - 1) if wrapping else vint(UM), s2))
        return outs
    return [(ip.fresh_int(st, "satadd"), st)]


@model("std::cmp::Ord::max", "std::cmp::max", "core::num::<impl usize>::max")
def m_max(ip, fr, c, t, args, st):
    a, b = args
    if is_int(a) and is_int(b):
        if st.num.entails(ge(a[1], b[1])):
            return [(a, st)]
        if st.num.entails(ge(b[1], a[1])):
            return [(b, st)]
        # undetermined: r >= a, r >= b, and remember that r is max(a, b)  (no partition: the disjunction r in {a, b} is
        # kept symbolically in the side table and used by the rules that need it)
        r = ip.fresh_int(st, "max")
        st.num.add(ge(r[1], a[1]))
        st.num.add(ge(r[1], b[1]))
        (sname, _), = r[1].t.items()
        st.store[("M", sname)] = (a[1], b[1])
        return [(r, st)]
    return [(ip.fresh_int(st, "max"), st)]


@model("std::cmp::Ord::min", "std::cmp::min", "core::num::<impl usize>::min")
def m_min(ip, fr, c, t, args, st):
    a, b = args
    if is_int(a) and is_int(b):
        s2 = st.fork()
        st.num.add(le(a[1], b[1]))
        s2.num.add(gt(a[1], b[1]))
        outs = []
        if st.num.feasible():
            outs.append((a, st))
        if s2.num.feasible():
            outs.append((b, s2))
        return outs
    return [(ip.fresh_int(st, "min"), st)]


# ---------------------------------------------------------------------------------------- iterator plumbing / misc
@model("<&mut I as std::iter::Iterator>::next", "<&mut I as std::iter::DoubleEndedIterator>::next_back")
def m_mutref_next(ip, fr, c, t, args, st):
    want = "next_back" if "next_back" in norm(c.resolved or c.nominal) else "next"
    p = args[0]
    inner = ip.load(st, *ip.resolve_ptr(st, p)) if p[0] == "ptr" else p
    for tb in c.type_targets:
        if tb.name == want:
            return ip.call_body(tb, [inner], st, fr.chain)
    return [(("unk", next(ip.ctr), "next"), st)]


# ---------------------------------------------------------------------------------------- more combinators (std forms a refactoring may use)
def _closure_results(ip, fr, c, clos, cargs, st, what):
    """[(rv, st)] of calling a closure / fn item argument; an opaque callable is a user closure call with unknown result"""
    r = call_closure(ip, fr, clos, cargs, st)
    if r is None:
        info = {"kind": "closure", "callee": "callable passed to %s" % what, "in": fr.body.path, "loc": c.loc, "chain": fr.chain, "bb": c.bb}
        ip.events.append(("user_call", info))
        return [(("unk", next(ip.ctr), "called"), st)]
    return r


def _pay(ip, v, vn):
    x = payload(v, vn)
    return x if x is not None else ("unk", next(ip.ctr), vn.lower())


@model("<std::option::Option<T> as std::ops::Try>::branch")
def m_try_branch_opt(ip, fr, c, t, args, st):
    outs = []
    v = args[0]
    for (vn, s) in variant_of(ip, st, v, ["None", "Some"]):
        if vn == "Some":
            outs.append((("enum", "std::ops::ControlFlow", "Continue", {"Continue": {"0": _pay(ip, v, "Some")}}), s))
        else:
            outs.append((("enum", "std::ops::ControlFlow", "Break", {"Break": {"0": option("None")}}), s))
    return outs


@model("<std::option::Option<T> as std::ops::FromResidual<std::option::Option<std::convert::Infallible>>>::from_residual")
def m_from_residual_opt(ip, fr, c, t, args, st):
    return [(option("None"), st)]


@model("std::option::Option::and_then")
def m_option_and_then(ip, fr, c, t, args, st):
    outs = []
    for (vn, s) in _opt_parts(ip, st, args[0]):
        if vn == "None":
            outs.append((option("None"), s))
        else:
            outs += _closure_results(ip, fr, c, args[1], [_pay(ip, args[0], "Some")], s, "Option::and_then")
    return outs


@model("std::option::Option::map_or")
def m_option_map_or(ip, fr, c, t, args, st):
    outs = []
    for (vn, s) in _opt_parts(ip, st, args[0]):
        if vn == "None":
            outs.append((args[1], s))
        else:
            outs += _closure_results(ip, fr, c, args[2], [_pay(ip, args[0], "Some")], s, "Option::map_or")
    return outs


@model("std::option::Option::map_or_else")
def m_option_map_or_else(ip, fr, c, t, args, st):
    outs = []
    for (vn, s) in _opt_parts(ip, st, args[0]):
        if vn == "None":
            outs += _closure_results(ip, fr, c, args[1], [], s, "Option::map_or_else")
        else:
            outs += _closure_results(ip, fr, c, args[2], [_pay(ip, args[0], "Some")], s, "Option::map_or_else")
    return outs


@model("std::option::Option::ok_or_else")
def m_option_ok_or_else(ip, fr, c, t, args, st):
    outs = []
    for (vn, s) in _opt_parts(ip, st, args[0]):
        if vn == "Some":
            outs.append((result("Ok", _pay(ip, args[0], "Some")), s))
        else:
            outs += [(result("Err", rv), s2) for (rv, s2) in _closure_results(ip, fr, c, args[1], [], s, "Option::ok_or_else")]
    return outs


@model("std::option::Option::unwrap_or")
def m_option_unwrap_or(ip, fr, c, t, args, st):
    return [((_pay(ip, args[0], "Some") if vn == "Some" else args[1]), s) for (vn, s) in _opt_parts(ip, st, args[0])]


@model("std::option::Option::unwrap_or_else")
def m_option_unwrap_or_else(ip, fr, c, t, args, st):
    outs = []
    for (vn, s) in _opt_parts(ip, st, args[0]):
        if vn == "Some":
            outs.append((_pay(ip, args[0], "Some"), s))
        else:
            outs += _closure_results(ip, fr, c, args[1], [], s, "Option::unwrap_or_else")
    return outs


@model("std::option::Option::filter")
def m_option_filter(ip, fr, c, t, args, st):
    outs = []
    for (vn, s) in _opt_parts(ip, st, args[0]):
        if vn == "None":
            outs.append((option("None"), s))
            continue
        x = _pay(ip, args[0], "Some")
        tmp = ip.new_oid("T")
        s.store[tmp] = x
        for (rv, s2) in _closure_results(ip, fr, c, args[1], [("ptr", tmp, ())], s, "Option::filter"):
            for truth in (True, False):
                s3 = s2.fork()
                if rv[0] in ("bool", "bnot", "cmp", "peq", "isnull") and not fr.assume_bool(s3, rv, truth):
                    continue
                outs.append((option("Some", x) if truth else option("None"), s3))
    return outs


def _ref_into(ip, st, p, variants, mk):
    """Option::as_ref / Result::as_ref and their _mut forms: same variant, payload = pointer to the payload in place"""
    if p[0] != "ptr":
        return [(("unk", next(ip.ctr), "as_ref"), st)]
    oid, path = ip.resolve_ptr(st, p)
    v = ip.load(st, oid, path)
    outs = []
    for (vn, s) in variant_of(ip, st, v, variants):
        if v[0] == "enum" and v[2] is None:
            # fix the variant in the store of this partition so that later reads agree
            try:
                ip._store_at(s, oid, path, ("enum", v[1], vn, dict(v[3])))
            except Exception:
                pass
        outs.append((mk(vn, ("ptr", oid, path + ("@" + vn, "0"))), s))
    return outs


@model("std::option::Option::as_ref", "std::option::Option::as_mut")
def m_option_as_ref(ip, fr, c, t, args, st):
    return _ref_into(ip, st, args[0], ["None", "Some"], lambda vn, p: option("Some", p) if vn == "Some" else option("None"))


@model("std::result::Result::as_ref", "std::result::Result::as_mut")
def m_result_as_ref(ip, fr, c, t, args, st):
    return _ref_into(ip, st, args[0], ["Ok", "Err"], lambda vn, p: result(vn, p))


@model("std::result::Result::map")
def m_result_map(ip, fr, c, t, args, st):
    outs = []
    for (vn, s) in variant_of(ip, st, args[0], ["Ok", "Err"]):
        if vn == "Err":
            outs.append((result("Err", _pay(ip, args[0], "Err")), s))
        else:
            outs += [(result("Ok", rv), s2) for (rv, s2) in _closure_results(ip, fr, c, args[1], [_pay(ip, args[0], "Ok")], s, "Result::map")]
    return outs


@model("std::result::Result::map_err")
def m_result_map_err(ip, fr, c, t, args, st):
    outs = []
    for (vn, s) in variant_of(ip, st, args[0], ["Ok", "Err"]):
        if vn == "Ok":
            outs.append((result("Ok", _pay(ip, args[0], "Ok")), s))
        else:
            outs += [(result("Err", rv), s2) for (rv, s2) in _closure_results(ip, fr, c, args[1], [_pay(ip, args[0], "Err")], s, "Result::map_err")]
    return outs


@model("std::result::Result::and_then")
def m_result_and_then(ip, fr, c, t, args, st):
    outs = []
    for (vn, s) in variant_of(ip, st, args[0], ["Ok", "Err"]):
        if vn == "Err":
            outs.append((result("Err", _pay(ip, args[0], "Err")), s))
        else:
            outs += _closure_results(ip, fr, c, args[1], [_pay(ip, args[0], "Ok")], s, "Result::and_then")
    return outs


@model("std::result::Result::map_or_else")
def m_result_map_or_else(ip, fr, c, t, args, st):
    outs = []
    for (vn, s) in variant_of(ip, st, args[0], ["Ok", "Err"]):
        if vn == "Err":
            outs += _closure_results(ip, fr, c, args[1], [_pay(ip, args[0], "Err")], s, "Result::map_or_else")
        else:
            outs += _closure_results(ip, fr, c, args[2], [_pay(ip, args[0], "Ok")], s, "Result::map_or_else")
    return outs


@model("std::result::Result::map_or")
def m_result_map_or(ip, fr, c, t, args, st):
    outs = []
    for (vn, s) in variant_of(ip, st, args[0], ["Ok", "Err"]):
        if vn == "Err":
            outs.append((args[1], s))
        else:
            outs += _closure_results(ip, fr, c, args[2], [_pay(ip, args[0], "Ok")], s, "Result::map_or")
    return outs


@model("std::result::Result::unwrap_or_else")
def m_result_unwrap_or_else(ip, fr, c, t, args, st):
    outs = []
    for (vn, s) in variant_of(ip, st, args[0], ["Ok", "Err"]):
        if vn == "Ok":
            outs.append((_pay(ip, args[0], "Ok"), s))
        else:
            outs += _closure_results(ip, fr, c, args[1], [_pay(ip, args[0], "Err")], s, "Result::unwrap_or_else")
    return outs


@model("std::result::Result::ok")
def m_result_ok(ip, fr, c, t, args, st):
    return [((option("Some", _pay(ip, args[0], "Ok")) if vn == "Ok" else option("None")), s)
            for (vn, s) in variant_of(ip, st, args[0], ["Ok", "Err"])]


@model("std::result::Result::is_ok", "std::result::Result::is_err")
def m_result_is_ok(ip, fr, c, t, args, st):
    want = "Ok" if norm(c.resolved or c.nominal).endswith("is_ok") else "Err"
    v = args[0]
    if v[0] == "ptr":
        v = ip.load(st, *ip.resolve_ptr(st, v))
    return [(("bool", vn == want), s) for (vn, s) in variant_of(ip, st, v, ["Ok", "Err"])]


@model("core::bool::<impl bool>::then_some")
def m_then_some(ip, fr, c, t, args, st):
    outs = []
    for truth in (True, False):
        s = st.fork()
        if not fr.assume_bool(s, args[0], truth):
            continue
        outs.append((option("Some", args[1]) if truth else option("None"), s))
    return outs


@model("core::bool::<impl bool>::then")
def m_then(ip, fr, c, t, args, st):
    outs = []
    for truth in (True, False):
        s = st.fork()
        if not fr.assume_bool(s, args[0], truth):
            continue
        if truth:
            outs += [(option("Some", rv), s2) for (rv, s2) in _closure_results(ip, fr, c, args[1], [], s, "bool::then")]
        else:
            outs.append((option("None"), s))
    return outs


@model("std::ptr::eq", "std::ptr::addr_eq")
def m_ptr_eq(ip, fr, c, t, args, st):
    return [(("peq", args[0], args[1], False), st)]


@model("std::convert::Into::into", "<T as std::convert::Into<U>>::into")
def m_into(ip, fr, c, t, args, st):
    """x.into(): the blanket impl calls U::from(x); for a crate-local From impl that body is run"""
    dest = t["dest"]["ty"] if isinstance(t["dest"].get("ty"), str) else ""
    a = [x for x in (c.fn.get("args") or []) if x.get("k") not in ("region", "const")] if c.fn else []
    want_self = a[1].get("name") if len(a) > 1 and a[1].get("k") == "adt" else None
    want_in = a[0].get("name") if a and a[0].get("k") == "adt" else None
    cands = []
    for b in ip.f.bodies:
        if b.impl_trait == "std::convert::From" and b.name == "from" and b.impl_self and b.impl_self.get("k") == "adt":
            ins = b.j.get("inputs") or []
            if want_self and b.impl_self.get("name") != want_self:
                continue
            if want_in and not (ins and ins[0].get("k") == "adt" and ins[0].get("name") == want_in):
                continue
            if not want_self and b.impl_self.get("name", "").split("::")[-1] not in dest:
                continue
            cands.append(b)
    if len(cands) == 1:
        return ip.call_body(cands[0], [args[0]], st, fr.chain)
    if want_self is None and want_in is None:
        return [(args[0], st)]          # T: Into<T> (identity)
    return [(ip.fresh_of_ty(st, t["dest"]["ty"], "into"), st)]


@model("std::cmp::PartialEq::ne")
def m_ne(ip, fr, c, t, args, st):
    for tb in c.type_targets:
        if tb.name == "eq":
            outs = []
            for (rv, s) in ip.call_body(tb, list(args), st, fr.chain):
                if rv[0] == "bool":
                    outs.append((("bool", not rv[1]), s))
                else:
                    outs.append((("bnot", rv), s))
            return outs
    return [(("bunk", next(ip.ctr)), st)]


@model("core::panicking::panic_fmt", "core::panicking::panic", "core::panicking::unreachable_display",
       "core::panicking::panic_explicit", "std::rt::begin_panic", "core::panicking::panic_nounwind")
def m_panic(ip, fr, c, t, args, st):
    return []


@model("std::hint::unreachable_unchecked")
def m_unreachable(ip, fr, c, t, args, st):
    return []


def m_fmt_noop(ip, fr, c, t, args, st):
    return [(ip.fresh_of_ty(st, t["dest"]["ty"], "fmt"), st)]


def m_fn_call(ip, fr, c, t, args, st):
    """<closure as Fn*>::call*(closure, (args,)) resolved externally: run the closure body"""
    clos = args[0]
    tup = args[1] if len(args) > 1 else ("unit",)
    cargs = []
    if tup[0] == "struct":
        cargs = [tup[2][k] for k in sorted(tup[2], key=lambda x: int(x) if str(x).isdigit() else 0)]
    r = call_closure(ip, fr, clos, cargs, st)
    if r is None:
        return user_call(ip, fr, c, t, args, st)
    return r


SUFFIX_MODELS = [
    ("std::fmt::", m_fmt_noop),
    ("as std::ops::Fn<", m_fn_call),
    ("as std::ops::FnMut<", m_fn_call),
    ("as std::ops::FnOnce<", m_fn_call),
]
