"""Trusted model of external (hashbrown / core / std) callees  -- DESIGN.md section 1.3.

One entry per external callee that occurs in an analysed body.  Attributes:
  user      : may run user code by itself (beyond closures it is handed)          default False
  closures  : calls the closures it is given (0..n times)                          default False
  panics    : may panic for reasons other than user code / closures                default False
  table     : effect class on a RawTable receiver: insert|insert_grow|remove|find|drain|into_iter|
              clear|new|len|capacity|iter_next                                     default None
  writes    : writes through its &mut/*mut arguments                               default False
  why       : one line of reason (what was read to confirm it)
Anything not listed is 'unmodelled': assumed to run user code if a generic parameter of the
caller occurs in its type arguments, to call every closure it is given, to panic and to write
through every &mut argument.
"""
import re


def norm(defpath):
    """strip generic-argument segments `::<T, A>` (but keep `<impl ...>` segments)"""
    out = []
    i = 0
    s = defpath
    while i < len(s):
        if s.startswith("::<", i) and not s.startswith("::<impl", i):
            depth = 0
            j = i + 2
            while j < len(s):
                if s[j] == "<":
                    depth += 1
                elif s[j] == ">":
                    depth -= 1
                    if depth == 0:
                        break
                j += 1
            i = j + 1
            continue
        out.append(s[i])
        i += 1
    return "".join(out)


def M(why, **kw):
    d = {"user": False, "closures": False, "panics": False, "table": None, "writes": False, "why": why, "traits": (), "ret_from": None, "ret_variants": None, "payload": None}
    d.update(kw)
    return d


HB = "hashbrown-0.14.5/src/raw/mod.rs"
EXTERNALS = {
    # ---- hashbrown RawTable (read in hashbrown-0.14.5/src/raw/mod.rs)
    "hashbrown::raw::RawTable::new": M(HB + ": empty singleton, no allocation", table="new"),
    "hashbrown::raw::RawTable::with_capacity": M(HB + ": allocates >= capacity; aborts on OOM", table="new", panics=True),
    "hashbrown::raw::RawTable::try_with_capacity": M(HB + ": fallible allocation, Err without effect", table="new"),
    "hashbrown::raw::RawTable::len": M(HB + ": reads items", table="len", ret_from=(0,)),
    "hashbrown::raw::RawTable::capacity": M(HB + ": items + growth_left", table="capacity", ret_from=(0,)),
    "hashbrown::raw::RawTable::find": M(HB + ": probes, calls eq; no mutation", closures=True, table="find", ret_from=(0,)),
    "hashbrown::raw::RawTable::get": M(HB + ": find + as_ref", closures=True, table="find", ret_from=(0,)),
    "hashbrown::raw::RawTable::get_mut": M(HB + ": find + as_mut (no mutation by itself)", closures=True, table="find", ret_from=(0,)),
    "hashbrown::raw::RawTable::remove_entry": M(HB + ": find (calls eq) then erase + ptr::read; bucket bytes stay", closures=True, table="remove", writes=True, ret_from=(0,)),
    "hashbrown::raw::RawTable::try_insert_no_grow": M(HB + ": Ok(bucket) or Err(value) when no growth room; never calls user code", table="insert", writes=True, ret_from=(0,), ret_variants={"Ok": (0,), "Err": (2,)}),
    "hashbrown::raw::RawTable::insert": M(HB + ": reserve(1, hasher) may rehash all via hasher, then insert", closures=True, table="insert_grow", writes=True, panics=True, ret_from=(0,)),
    "hashbrown::raw::RawTable::insert_no_grow": M(HB + ": unsafe insert without growth", table="insert", writes=True, ret_from=(0,)),
    "hashbrown::raw::RawTable::drain": M(HB + ": RawDrain; table marked empty when the drain is dropped", table="drain", writes=True, ret_from=(0,)),
    "hashbrown::raw::RawTable::clear_no_drop": M(HB + ": resets ctrl bytes, items=0; drops nothing", table="clear", writes=True),
    "hashbrown::raw::RawTable::clear": M(HB + ": drops elements then clear_no_drop", table="clear", writes=True, user=True),
    "hashbrown::raw::RawTable::iter": M(HB + ": unsafe RawIter over full buckets", table="iter", ret_from=(0,)),
    "hashbrown::raw::RawTable::erase": M(HB + ": erase a bucket", table="remove", writes=True),
    "hashbrown::raw::RawTable::remove": M(HB + ": erase + read", table="remove", writes=True),
    "hashbrown::raw::RawTable::reserve": M(HB + ": may rehash all via hasher", closures=True, table="insert_grow", writes=True, panics=True),
    "hashbrown::raw::RawTable::shrink_to": M(HB + ": may rehash all via hasher", closures=True, table="insert_grow", writes=True, panics=True),
    "hashbrown::raw::RawTable::try_reserve": M(HB + ": may rehash all via hasher (in place or into a new allocation)", closures=True, table="insert_grow", writes=True),
    "hashbrown::raw::RawTable::insert_entry": M(HB + ": insert (may grow and rehash all) + as_mut", closures=True, table="insert_grow", writes=True, panics=True, ret_from=(0,)),
    "hashbrown::raw::Bucket::as_ptr": M(HB + ": pointer arithmetic"),
    "hashbrown::raw::Bucket::as_ref": M(HB + ": &*as_ptr"),
    "hashbrown::raw::Bucket::as_mut": M(HB + ": &mut *as_ptr"),
    "hashbrown::raw::Bucket::read": M(HB + ": ptr::read of the bucket"),
    "<hashbrown::raw::RawDrain<'_, T, A> as std::iter::Iterator>::next": M(HB + ": bitwise read of next full bucket", table="iter_next"),
    "<hashbrown::raw::RawIntoIter<T, A> as std::iter::Iterator>::next": M(HB + ": bitwise read of next full bucket", table="iter_next"),
    "<hashbrown::raw::RawIter<T> as std::iter::Iterator>::next": M(HB + ": next full bucket", table="iter_next"),
    "<hashbrown::raw::RawTable<T, A> as std::iter::IntoIterator>::into_iter": M(HB + ": consumes the table into RawIntoIter (owns the allocation)", table="into_iter"),
    "<hashbrown::raw::RawTable<T, A> as std::default::Default>::default": M(HB + ": Self::new_in(Default)", table="new"),
    # ---- core / std: algebraic helpers
    "std::mem::swap": M("core::mem: bitwise exchange", writes=True),
    "std::mem::replace": M("core::mem: bitwise exchange", writes=True),
    "std::mem::take": M("core::mem: replace(dest, Default::default()); Default of the pointee type runs", writes=True, traits=("std::default::Default",)),
    "std::mem::forget": M("core::mem: no drop"),
    "std::mem::size_of": M("intrinsic constant"),
    "std::mem::size_of_val": M("intrinsic"),
    "std::mem::align_of": M("intrinsic constant"),
    "std::mem::drop": M("drops its argument", user=True, traits=("std::ops::Drop",)),
    "std::option::Option::map": M("core::option: calls f on Some", closures=True),
    "std::option::Option::and_then": M("core::option", closures=True),
    "std::option::Option::unwrap": M("core::option: panics on None", panics=True, payload="Some"),
    "std::option::Option::expect": M("core::option: panics on None", panics=True),
    "std::option::Option::unwrap_unchecked": M("core::option: UB on None", payload="Some"),
    "std::option::Option::is_some": M("core::option"),
    "std::option::Option::is_none": M("core::option"),
    "std::option::Option::ok_or": M("core::option"),
    "std::option::Option::take": M("core::option", writes=True),
    "<std::option::Option<T> as std::ops::Try>::branch": M("core::option: the ? operator"),
    "<std::option::Option<T> as std::ops::FromResidual<std::option::Option<std::convert::Infallible>>>::from_residual": M("core::option: the ? operator"),
    "std::option::Option::map_or": M("core::option: default or f(x)", closures=True),
    "std::option::Option::map_or_else": M("core::option: d() or f(x)", closures=True),
    "std::option::Option::ok_or_else": M("core::option", closures=True),
    "std::option::Option::unwrap_or": M("core::option"),
    "std::option::Option::unwrap_or_else": M("core::option", closures=True),
    "std::option::Option::filter": M("core::option", closures=True),
    "std::option::Option::as_ref": M("core::option: &Option<T> -> Option<&T>", ret_from=(0,)),
    "std::option::Option::as_mut": M("core::option: &mut Option<T> -> Option<&mut T>", ret_from=(0,)),
    "std::result::Result::as_ref": M("core::result", ret_from=(0,)),
    "std::result::Result::as_mut": M("core::result", ret_from=(0,)),
    "std::result::Result::and_then": M("core::result", closures=True),
    "std::result::Result::map_or": M("core::result", closures=True),
    "std::result::Result::map_or_else": M("core::result", closures=True),
    "core::bool::<impl bool>::then_some": M("core::bool"),
    "core::bool::<impl bool>::then": M("core::bool", closures=True),
    "std::convert::Into::into": M("core::convert: the blanket impl calls U::from(self) (a crate-local From impl here: moves fields)", traits=("std::convert::From",)),
    "std::array::<impl [T; N]>::as_slice": M("core::array: unsizing view of the whole array", ret_from=(0,)),
    "std::array::<impl [T; N]>::as_mut_slice": M("core::array: unsizing view of the whole array", ret_from=(0,)),
    "std::ptr::mut_ptr::<impl *mut T>::write": M("core::ptr: bitwise write through the pointer", writes=True),
    "std::ptr::mut_ptr::<impl *mut T>::write_unaligned": M("core::ptr: bitwise write through the pointer", writes=True),
    "std::ptr::eq": M("core::ptr: address comparison"),
    "std::ptr::addr_eq": M("core::ptr: address comparison"),
    "std::fmt::DebugMap::entry": M("core::fmt: formats key and value through their Debug impls (reads only)", user=True, traits=("std::fmt::Debug",)),
    "std::fmt::DebugMap::key": M("core::fmt", user=True, traits=("std::fmt::Debug",)),
    "std::fmt::DebugMap::value": M("core::fmt", user=True, traits=("std::fmt::Debug",)),
    "std::fmt::DebugList::entry": M("core::fmt", user=True, traits=("std::fmt::Debug",)),
    "std::fmt::DebugSet::entry": M("core::fmt", user=True, traits=("std::fmt::Debug",)),
    "std::fmt::DebugStruct::field": M("core::fmt", user=True, traits=("std::fmt::Debug",)),
    "std::result::Result::unwrap": M("core::result: panics on Err (Debug of E)", panics=True, payload="Ok"),
    "std::result::Result::expect": M("core::result: panics on Err", panics=True),
    "std::result::Result::unwrap_unchecked": M("core::result: UB on Err", payload="Ok"),
    "std::result::Result::unwrap_or_else": M("core::result", closures=True),
    "std::result::Result::is_ok": M("core::result"),
    "std::result::Result::is_err": M("core::result"),
    "std::result::Result::ok": M("core::result (drops the error)"),
    "std::result::Result::map": M("core::result", closures=True),
    "std::result::Result::map_err": M("core::result", closures=True),
    "<std::result::Result<T, E> as std::ops::Try>::branch": M("core::result: Ok->Continue, Err->Break"),
    "<std::result::Result<T, F> as std::ops::FromResidual<std::result::Result<std::convert::Infallible, E>>>::from_residual":
        M("core::result: Err(From::from(e)); From impl resolved separately", user=False),
    "<std::option::Option<T> as std::ops::Try>::branch": M("core::option"),
    "<std::option::Option<T> as std::ops::FromResidual<std::option::Option<std::convert::Infallible>>>::from_residual": M("core::option"),
    "core::num::<impl usize>::checked_add": M("core::num"),
    "core::num::<impl usize>::checked_sub": M("core::num"),
    "core::num::<impl usize>::checked_mul": M("core::num"),
    "core::num::<impl usize>::saturating_sub": M("core::num"),
    "core::num::<impl usize>::saturating_add": M("core::num"),
    "core::num::<impl usize>::wrapping_sub": M("core::num"),
    "core::num::<impl usize>::wrapping_add": M("core::num"),
    "core::num::<impl usize>::max": M("core::cmp"),
    "core::num::<impl usize>::min": M("core::cmp"),
    "std::cmp::Ord::max": M("core::cmp default method (on usize here)"),
    "std::cmp::Ord::min": M("core::cmp default method (on usize here)"),
    "std::cmp::max": M("core::cmp"),
    "std::cmp::min": M("core::cmp"),
    "std::boxed::Box::new": M("alloc::boxed: allocates; aborts on OOM"),
    "std::boxed::Box::into_raw": M("alloc::boxed"),
    "std::boxed::Box::from_raw": M("alloc::boxed"),
    "std::ptr::read": M("core::ptr: bitwise copy-out"),
    "std::ptr::write": M("core::ptr: bitwise write", writes=True),
    "std::ptr::null_mut": M("core::ptr"),
    "std::ptr::null": M("core::ptr"),
    "std::ptr::drop_in_place": M("runs the pointee's drop glue", user=True, writes=True),
    "std::ptr::mut_ptr::<impl *mut T>::is_null": M("core::ptr"),
    "std::ptr::const_ptr::<impl *const T>::is_null": M("core::ptr"),
    "std::mem::MaybeUninit::new": M("core::mem::maybe_uninit"),
    "std::mem::MaybeUninit::uninit": M("core::mem::maybe_uninit"),
    "std::mem::MaybeUninit::assume_init": M("core::mem::maybe_uninit: moves the value out"),
    "std::mem::MaybeUninit::assume_init_ref": M("core::mem::maybe_uninit"),
    "std::mem::MaybeUninit::assume_init_mut": M("core::mem::maybe_uninit"),
    "std::mem::MaybeUninit::as_mut_ptr": M("core::mem::maybe_uninit"),
    "std::mem::MaybeUninit::as_ptr": M("core::mem::maybe_uninit"),
    "std::mem::MaybeUninit::assume_init_drop": M("core::mem::maybe_uninit: drops in place", user=True, writes=True),
    "std::mem::MaybeUninit::assume_init_read": M("core::mem::maybe_uninit: bitwise copy-out"),
    "std::mem::MaybeUninit::write": M("core::mem::maybe_uninit", writes=True),
    "std::mem::ManuallyDrop::take": M("core::mem: bitwise copy-out"),
    "std::mem::ManuallyDrop::drop": M("core::mem: drops in place", user=True, writes=True),
    "std::ptr::read_unaligned": M("core::ptr: bitwise copy-out"),
    "std::ptr::read_volatile": M("core::ptr: bitwise copy-out"),
    "std::ptr::mut_ptr::<impl *mut T>::read": M("core::ptr: bitwise copy-out"),
    "std::ptr::const_ptr::<impl *const T>::read": M("core::ptr: bitwise copy-out"),
    "<I as std::iter::IntoIterator>::into_iter": M("core::iter: identity for iterators"),
    "std::iter::Iterator::by_ref": M("core::iter: returns self"),
    "<&mut I as std::iter::Iterator>::next": M("core::iter: (**self).next()", user=False),
    "<&mut I as std::iter::DoubleEndedIterator>::next_back": M("core::iter: (**self).next_back()"),
    "std::cmp::PartialEq::ne": M("core::cmp default: !eq (eq resolved through the type-driven edge)"),
    "std::cmp::impls::<impl std::cmp::PartialEq<&B> for &A>::eq": M("core::cmp: forwards to A: PartialEq<B>", user=True),
    "std::clone::impls::<impl std::clone::Clone for usize>::clone": M("core::clone"),
    "<std::hash::BuildHasherDefault<H> as std::default::Default>::default": M("core::hash"),
    "<std::marker::PhantomData<T> as std::default::Default>::default": M("core::marker"),
    "core::panicking::panic_fmt": M("panics", panics=True),
    "core::panicking::panic": M("panics", panics=True),
    "core::panicking::unreachable_display": M("panics", panics=True),
    "std::fmt::Arguments::from_str": M("core::fmt"),
    "std::fmt::Arguments::from_str_nonconst": M("core::fmt"),
    "std::fmt::Arguments::new": M("core::fmt"),
    "std::fmt::Formatter::write_fmt": M("core::fmt: writes to the formatter"),
    "std::fmt::Formatter::write_str": M("core::fmt"),
    "std::fmt::Formatter::debug_map": M("core::fmt"),
    "std::fmt::DebugMap::entries": M("core::fmt: iterates the argument and formats items (Debug of K,V = user code)", user=True, traits=("std::iter::Iterator", "std::iter::IntoIterator", "std::fmt::Debug", "std::ops::Drop")),
    "std::fmt::DebugMap::finish": M("core::fmt"),
    "std::fmt::Formatter::debug_struct_field2_finish": M("core::fmt: Debug of fields", user=True),
    "std::fmt::Formatter::debug_struct_field4_finish": M("core::fmt: Debug of fields", user=True),
    "std::fmt::Formatter::debug_struct_field5_finish": M("core::fmt: Debug of fields", user=True),
    "std::hint::unreachable_unchecked": M("core::hint"),
    # ---- std containers / accessors used by the size estimators (pure accessors; std docs)
    "core::slice::<impl [T]>::iter": M("core::slice: borrowing iterator over all elements"),
    "core::slice::<impl [T]>::len": M("core::slice"),
    "std::collections::BinaryHeap::capacity": M("alloc::collections::binary_heap: Vec capacity"),
    "std::collections::BinaryHeap::iter": M("alloc: borrowing iterator over all elements"),
    "std::collections::HashMap::capacity": M("std::collections::hash_map: lower bound of elements held without reallocating"),
    "std::collections::HashMap::hasher": M("std::collections::hash_map"),
    "std::collections::HashMap::keys": M("std: borrowing iterator over all keys"),
    "std::collections::HashMap::values": M("std: borrowing iterator over all values"),
    "std::collections::HashMap::iter": M("std: borrowing iterator over all pairs"),
    "std::collections::HashSet::capacity": M("std::collections::hash_set"),
    "std::collections::HashSet::hasher": M("std::collections::hash_set"),
    "std::collections::HashSet::iter": M("std: borrowing iterator over all elements"),
    "std::collections::VecDeque::capacity": M("alloc"),
    "std::collections::VecDeque::iter": M("alloc"),
    "std::ffi::CString::as_bytes_with_nul": M("alloc::ffi: the whole owned buffer (boxed slice, exact fit)"),
    "std::ffi::CString::as_bytes": M("alloc::ffi"),
    "std::ffi::OsString::capacity": M("std::ffi::os_str"),
    "std::ffi::OsString::len": M("std::ffi::os_str"),
    "std::path::PathBuf::capacity": M("std::path"),
    "std::path::PathBuf::as_path": M("std::path"),
    "std::string::String::capacity": M("alloc::string"),
    "std::string::String::len": M("alloc::string"),
    "std::vec::Vec::as_slice": M("alloc::vec"),
    "std::vec::Vec::capacity": M("alloc::vec"),
    "std::vec::Vec::len": M("alloc::vec"),
    "std::vec::Vec::iter": M("alloc::vec"),
    "std::ops::RangeInclusive::start": M("core::ops"),
    "std::ops::RangeInclusive::end": M("core::ops"),
    "std::sync::Mutex::lock": M("std::sync: blocks; Err(PoisonError(guard)) when poisoned"),
    "std::sync::RwLock::read": M("std::sync: blocks; Err(PoisonError(guard)) when poisoned"),
    "std::sync::PoisonError::into_inner": M("std::sync"),
}


def model_of(defpath):
    return EXTERNALS.get(norm(defpath)) or EXTERNALS.get(defpath)


USER_TRAITS = {
    "std::hash::Hash": "hash",
    "std::hash::BuildHasher": "hash",
    "std::hash::Hasher": "hash",
    "std::cmp::PartialEq": "eq",
    "std::cmp::Eq": "eq",
    "std::borrow::Borrow": "borrow",
    "std::clone::Clone": "clone",
    "mem_size::HeapSize": "size",
    "mem_size::ValueSize": "size",
    "mem_size::MemSize": "size",
    "std::ops::Fn": "closure",
    "std::ops::FnMut": "closure",
    "std::ops::FnOnce": "closure",
    "std::fmt::Debug": "fmt",
    "std::fmt::Display": "fmt",
}
