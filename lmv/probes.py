"""E7: compiler probes.  Builds lru_mem as an rlib from the repo under analysis (cached by tree hash) and asks rustc
(stable toolchain) to accept / reject small client programs.  A negative probe passes iff rustc rejects it with one of
the expected error codes *on the marked line* and its twin (same program, offending line neutralised) compiles."""
import os, json, subprocess, tempfile, shutil, hashlib, time
from concurrent.futures import ThreadPoolExecutor
from .facts import tree_hash, cache_dir, VERIF, REPO

MARK = "//~"


class ProbeError(Exception):
    pass


def build_rlib(repo=None):
    """returns (rlib path, deps dir). cached per tree hash under .cache/rlib-<hash>/"""
    repo = repo or REPO
    key = tree_hash(repo)
    d = os.path.join(cache_dir(), "rlib-%s" % key)
    marker = os.path.join(d, "OK")
    if os.path.exists(marker):
        rl = [f for f in os.listdir(os.path.join(d, "deps")) if f.startswith("liblru_mem-") and f.endswith(".rlib")]
        if rl:
            return os.path.join(d, "deps", rl[0]), os.path.join(d, "deps")
    tgt = tempfile.mkdtemp(prefix="lmv-rlib.", dir=os.environ.get("TMPDIR", "/tmp"))
    try:
        env = dict(os.environ)
        env["CARGO_NET_OFFLINE"] = "true"
        env["CARGO_TARGET_DIR"] = tgt
        env.pop("RUSTC_WORKSPACE_WRAPPER", None)
        env["RUSTFLAGS"] = "-Awarnings"
        r = subprocess.run(["cargo", "build", "--offline", "--lib"], cwd=repo, env=env, stdout=subprocess.PIPE,
                           stderr=subprocess.PIPE, text=True)
        if r.returncode != 0:
            raise ProbeError("cargo build --lib failed:\n" + r.stderr[-2000:])
        deps = os.path.join(tgt, "debug", "deps")
        shutil.rmtree(d, ignore_errors=True)
        os.makedirs(os.path.join(d, "deps"))
        for f in os.listdir(deps):
            if f.endswith(".rlib") or f.endswith(".rmeta") or f.endswith(".so"):
                shutil.copy2(os.path.join(deps, f), os.path.join(d, "deps", f))
        open(marker, "w").write(str(time.time()))
    finally:
        shutil.rmtree(tgt, ignore_errors=True)
    # keep at most 4 rlib caches
    olds = sorted((os.path.join(cache_dir(), x) for x in os.listdir(cache_dir()) if x.startswith("rlib-")), key=os.path.getmtime)
    for o in olds[:-4]:
        shutil.rmtree(o, ignore_errors=True)
    rl = [f for f in os.listdir(os.path.join(d, "deps")) if f.startswith("liblru_mem-") and f.endswith(".rlib")]
    return os.path.join(d, "deps", rl[0]), os.path.join(d, "deps")


def rustc(src_text, rlib, deps, workdir, name):
    path = os.path.join(workdir, name + ".rs")
    with open(path, "w") as fh:
        fh.write(src_text)
    cmd = ["rustc", "--edition", "2021", "--crate-type", "lib", "--emit=metadata", "--error-format=json", "-Awarnings",
           "--extern", "lru_mem=" + rlib, "-L", "dependency=" + deps, "--crate-name", "probe_" + name.replace("-", "_"),
           "--out-dir", workdir, path]
    r = subprocess.run(cmd, stdout=subprocess.PIPE, stderr=subprocess.PIPE, text=True)
    errs = []
    for line in r.stderr.splitlines():
        line = line.strip()
        if not line.startswith("{"):
            continue
        try:
            d = json.loads(line)
        except ValueError:
            continue
        if d.get("level") == "error":
            code = (d.get("code") or {}).get("code")
            if code is None and str(d.get("message", "")).startswith("aborting due to"):
                continue
            lines = sorted({s["line_start"] for s in d.get("spans", []) if s.get("is_primary")})
            all_lines = sorted({l for s in d.get("spans", []) for l in range(s["line_start"], s["line_end"] + 1)})
            errs.append({"code": code, "message": d.get("message"), "lines": lines, "all_lines": all_lines})
    return r.returncode, errs


class Probe:
    def __init__(self, name, src, expect=None, twin=None, what=""):
        """expect: None = must compile; else set of acceptable error codes, reported on the line carrying the //~ mark.
        twin: source that must compile (only for negative probes)."""
        self.name = name
        self.src = src
        self.expect = expect
        self.twin = twin
        self.what = what

    def marked_line(self):
        for i, l in enumerate(self.src.splitlines(), 1):
            if MARK in l:
                return i
        return None


def run_probes(probes, repo=None):
    rlib, deps = build_rlib(repo)
    work = tempfile.mkdtemp(prefix="lmv-probes.", dir=os.environ.get("TMPDIR", "/tmp"))
    results = []

    def one(p):
        out = {"name": p.name, "what": p.what, "expect": sorted(p.expect) if p.expect else "compiles"}
        rc, errs = rustc(p.src, rlib, deps, work, p.name)
        if p.expect is None:
            out["ok"] = (rc == 0)
            if rc != 0:
                out["why"] = "expected to compile, rustc reported: " + "; ".join("%s %s" % (e["code"], e["message"]) for e in errs[:3])
            return out
        ml = p.marked_line()
        hit = [e for e in errs if e["code"] in p.expect and (ml is None or ml in e["all_lines"])]
        other = [e for e in errs if e not in hit]
        out["errors"] = ["%s@%s" % (e["code"], e["lines"]) for e in errs][:5]
        if rc == 0:
            out["ok"] = False
            out["why"] = "rustc ACCEPTED a program that must be rejected (%s)" % "/".join(sorted(p.expect))
            return out
        if not hit:
            out["ok"] = False
            out["why"] = "rejected, but not with %s on the marked line %s: %s" % ("/".join(sorted(p.expect)), ml,
                                                                                 "; ".join("%s %s" % (e["code"], e["message"]) for e in errs[:3]))
            return out
        if other:
            out["ok"] = False
            out["why"] = "additional unrelated errors (probe itself is broken?): " + "; ".join("%s %s" % (e["code"], e["message"]) for e in other[:3])
            return out
        if p.twin is not None:
            rc2, errs2 = rustc(p.twin, rlib, deps, work, p.name + "_twin")
            if rc2 != 0:
                out["ok"] = False
                out["why"] = "twin does not compile (the probe would fail for an unrelated reason): " + \
                             "; ".join("%s %s" % (e["code"], e["message"]) for e in errs2[:3])
                out["twin_broken"] = True
                return out
        out["ok"] = True
        return out

    try:
        with ThreadPoolExecutor(max_workers=min(16, (os.cpu_count() or 4))) as ex:
            results = list(ex.map(one, probes))
    finally:
        shutil.rmtree(work, ignore_errors=True)
    return results
