"""Role inference (DESIGN.md section 1.2): names used by the rules are recovered on every run from
types and from the public API, never hard-coded."""
from .callgraph import ty_adts


class RoleError(Exception):
    pass


RAWTABLE = "hashbrown::raw::RawTable"


class Roles:
    def __init__(self, facts, cg):
        self.facts = facts
        self.cg = cg
        self.problems = []
        self._infer()

    def _fail(self, msg):
        self.problems.append(msg)

    def _infer(self):
        f = self.facts
        # --- cache ADT: the pub struct with a field of type RawTable<ENTRY>
        self.cache = None
        self.entry = None
        for name, a in f.adts.items():
            if a["kind"] != "struct" or a["vis"] != "pub":
                continue
            for fld in a["variants"][0]["fields"]:
                t = fld["ty"]
                if t.get("k") == "adt" and t["name"] == RAWTABLE and t["args"] and t["args"][0].get("k") == "adt" \
                        and t["args"][0].get("local") and self._is_cache_api(name):
                    self.cache = name
                    self.TABLE = fld["name"]
                    self.entry = t["args"][0]["name"]
        if not self.cache:
            self._fail("anchor-missing: no public struct with a RawTable<Entry> field and the cache API")
            return
        ca = f.adts[self.cache]
        ea = f.adts.get(self.entry)
        if ea is None:
            self._fail("anchor-missing: entry ADT")
            return
        # --- EntryPtr ADT: local struct with exactly one field, a raw pointer to ENTRY
        self.eptr = None
        for name, a in f.adts.items():
            if a["kind"] == "struct" and len(a["variants"][0]["fields"]) == 1:
                t = a["variants"][0]["fields"][0]["ty"]
                if t.get("k") == "ptr" and t["ty"].get("k") == "adt" and t["ty"]["name"] == self.entry:
                    self.eptr = name
                    self.EPTR_RAW = a["variants"][0]["fields"][0]["name"]
        if not self.eptr:
            self._fail("anchor-missing: handle struct wrapping *mut Entry")
            return
        # --- cache fields by type
        self.SEAL = None
        self.HB = None
        usize_fields = []
        for fld in ca["variants"][0]["fields"]:
            t = fld["ty"]
            if t.get("k") == "adt" and t["name"] == self.eptr:
                if self.SEAL:
                    self._fail("role-ambiguous: two EntryPtr fields in the cache")
                self.SEAL = fld["name"]
            elif t.get("k") == "param":
                self.HB = fld["name"]
            elif t.get("k") == "prim" and t["s"] == "usize":
                usize_fields.append(fld["name"])
        self.CS = self._getter_field("current_size")
        self.MS = self._getter_field("max_size")
        if not self.SEAL:
            self._fail("anchor-missing: seal field")
        if not self.CS or not self.MS:
            self._fail("anchor-missing: pub fn current_size/max_size returning a field")
        if self.CS == self.MS and self.CS:
            self._fail("role-ambiguous: current_size and max_size return the same field")
        # --- entry fields
        self.E_SIZE = None
        self.E_KEY = None
        self.E_VAL = None
        links = []
        gen = [g["name"] for g in ea["generics"] if g["kind"] == "type"]
        for fld in ea["variants"][0]["fields"]:
            t = fld["ty"]
            if t.get("k") == "prim" and t["s"] == "usize":
                if self.E_SIZE:
                    self._fail("role-ambiguous: two usize fields in Entry")
                self.E_SIZE = fld["name"]
            elif t.get("k") == "adt" and t["name"] == self.eptr:
                links.append(fld["name"])
            elif t.get("k") == "adt" and t["name"] == "std::mem::MaybeUninit" and t["args"] and t["args"][0].get("k") == "param":
                pn = t["args"][0]["name"]
                if len(gen) >= 2 and pn == gen[0]:
                    self.E_KEY = fld["name"]
                elif len(gen) >= 2 and pn == gen[1]:
                    self.E_VAL = fld["name"]
        if len(links) != 2:
            self._fail("anchor-missing: Entry must have exactly two link fields, found %r" % links)
            self.links = links
            return
        self.links = links
        if not (self.E_SIZE and self.E_KEY and self.E_VAL):
            self._fail("anchor-missing: Entry size/key/value fields")
        # --- link direction: the link peek_lru reads off the seal leads to the LRU entry
        a = self._seal_links_read("peek_lru")
        b = self._seal_links_read("peek_mru")
        self.L_LRU = next(iter(a)) if len(a) == 1 else None
        self.L_MRU = next(iter(b)) if len(b) == 1 else None
        # one of the two observers may read both links (e.g. after an edit that relinks): the other one decides
        if self.L_LRU and not self.L_MRU:
            rest = [l for l in links if l != self.L_LRU]
            self.L_MRU = rest[0] if len(rest) == 1 else None
        elif self.L_MRU and not self.L_LRU:
            rest = [l for l in links if l != self.L_MRU]
            self.L_LRU = rest[0] if len(rest) == 1 else None
        if not self.L_LRU or not self.L_MRU or self.L_LRU == self.L_MRU:
            # both observers read both links (e.g. one helper packs the two ends of the list into a struct): decide by value flow --
            # which link of the seal the *returned* entry of each observer is reached through
            a2 = self._link_in_result("peek_lru")
            b2 = self._link_in_result("peek_mru")
            la = next(iter(a2)) if len(a2) == 1 else None
            lb = next(iter(b2)) if len(b2) == 1 else None
            if la and not lb:
                rest = [l for l in links if l != la]
                lb = rest[0] if len(rest) == 1 else None
            elif lb and not la:
                rest = [l for l in links if l != lb]
                la = rest[0] if len(rest) == 1 else None
            if la and lb and la != lb:
                self.L_LRU, self.L_MRU = la, lb
        if not self.L_LRU or not self.L_MRU or self.L_LRU == self.L_MRU:
            self._fail("role-ambiguous: cannot tell the LRU-side from the MRU-side link (peek_lru reads %r, peek_mru reads %r)"
                       % (self.L_LRU, self.L_MRU))

    def _is_cache_api(self, adt):
        names = {b.name for b in self.facts.bodies
                 if b.kind == "assoc_fn" and b.vis == "pub" and b.impl_self and b.impl_self.get("name") == adt
                 and not b.impl_trait}
        return {"insert", "get", "remove", "max_size", "current_size"} <= names

    def pub_methods(self, adt=None):
        adt = adt or self.cache
        return [b for b in self.facts.bodies
                if b.kind == "assoc_fn" and b.vis == "pub" and b.impl_self and b.impl_self.get("name") == adt
                and not b.impl_trait]

    def method(self, name, adt=None):
        adt = adt or self.cache
        for b in self.facts.bodies:
            if b.kind == "assoc_fn" and b.name == name and b.impl_self and b.impl_self.get("name") == adt and not b.impl_trait:
                return b
        return None

    def trait_method(self, trait, name, adt=None):
        adt = adt or self.cache
        for b in self.facts.bodies:
            if b.kind == "assoc_fn" and b.name == name and b.impl_trait == trait and b.impl_self and b.impl_self.get("name") == adt:
                return b
        return None

    def _getter_field(self, name):
        b = self.method(name)
        if b is None or b.vis != "pub":
            return None
        # body of the form _0 = copy (*_1).F
        for bl in b.blocks:
            for st in bl["stmts"]:
                if st["k"] == "assign" and st["place"]["l"] == 0 and not st["place"]["p"] and st["rv"]["k"] == "use":
                    op = st["rv"]["op"]
                    if op["k"] in ("copy", "move"):
                        p = op["place"]["p"]
                        if op["place"]["l"] == 1 and len(p) == 2 and p[0]["k"] == "deref" and p[1]["k"] == "field" \
                                and p[1].get("of") == self.cache:
                            return p[1]["n"]
        return None

    def _link_in_result(self, api):
        """link fields that occur in the value `api` returns on its Some paths, evaluated on the body with its helpers inlined"""
        b = self.method(api)
        if b is None:
            return set()
        try:
            from .inline import derive
            from .terms import TermEval, show
            import re

            class _C:
                pass
            c = _C()
            c.facts, c.cg, c.eff = self.facts, self.cg, None
            v, _inl = derive(c, b, lambda tg: not tg.is_closure, depth=4)
            te = TermEval(self.facts, self.cg, inline=True)
            found = set()
            for pr in te.all_results(v, max_paths=60):
                txt = show(pr.ret)          # (Some(..) directly, or Option::map(Some(handle), projection))
                for l in self.links:
                    if re.search(r"\.%s(?![A-Za-z0-9_])" % re.escape(l), txt):
                        found.add(l)
            return found
        except Exception:
            return set()

    def _seal_links_read(self, api):
        """which link fields of Entry are read in the bodies reachable from pub fn `api`"""
        b = self.method(api)
        if b is None:
            return set()
        found = set()
        for path, body in self.cg.reach(b, include_drops=False).items():
            for bl in body.blocks:
                for st in bl["stmts"]:
                    if st["k"] != "assign":
                        continue
                    for pl in _rv_places(st["rv"]):
                        for e in pl["p"]:
                            if e["k"] == "field" and e.get("of") == self.entry and e.get("n") in self.links:
                                found.add(e["n"])
        return found

    # ---- type helpers
    def is_cache_ty(self, ty):
        return isinstance(ty, dict) and ty.get("k") == "adt" and ty.get("name") == self.cache

    def is_entry_ty(self, ty):
        return isinstance(ty, dict) and ty.get("k") == "adt" and ty.get("name") == self.entry

    def is_eptr_ty(self, ty):
        return isinstance(ty, dict) and ty.get("k") == "adt" and ty.get("name") == self.eptr

    def contains_entry_by_value(self, ty, depth=0):
        """type contains Entry<K,V> by value (not behind a pointer/reference)"""
        if not isinstance(ty, dict) or depth > 8:
            return False
        k = ty.get("k")
        if k in ("ref", "ptr"):
            return False
        if k == "adt":
            if ty["name"] == self.entry:
                return True
            if ty["name"] in (RAWTABLE, "hashbrown::raw::RawIntoIter", "hashbrown::raw::RawDrain", "hashbrown::raw::Bucket",
                              "hashbrown::raw::RawIter", "std::boxed::Box", "std::rc::Rc", "std::sync::Arc", "std::vec::Vec"):
                return False
            return any(self.contains_entry_by_value(a, depth + 1) for a in ty.get("args", []))
        if k == "tuple":
            return any(self.contains_entry_by_value(a, depth + 1) for a in ty.get("tys", []))
        return False

    def summary(self):
        return {k: getattr(self, k, None) for k in
                ("cache", "entry", "eptr", "TABLE", "SEAL", "HB", "CS", "MS", "E_SIZE", "E_KEY", "E_VAL", "L_LRU", "L_MRU",
                 "EPTR_RAW")}


def _rv_places(rv):
    out = []
    k = rv["k"]
    if k in ("ref", "rawptr", "discr", "copyforderef"):
        out.append(rv["place"])
    for key in ("op", "a", "b"):
        o = rv.get(key)
        if isinstance(o, dict) and o.get("k") in ("copy", "move"):
            out.append(o["place"])
    for o in rv.get("ops", []) or []:
        if o.get("k") in ("copy", "move"):
            out.append(o["place"])
    return out
