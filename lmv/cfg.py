"""E1 (part 1): per-body control-flow graph utilities over MIR facts."""
from functools import lru_cache


def term_succs(t, unwind=True):
    """Successor block ids of a terminator. Returns list of (bb, kind) kind in {'n','u'}."""
    k = t["k"]
    out = []
    if k == "goto":
        out.append((t["target"], "n"))
    elif k == "switch":
        for _v, b in t["targets"]:
            out.append((b, "n"))
        out.append((t["otherwise"], "n"))
    elif k in ("call", "drop", "assert"):
        if t.get("target") is not None:
            out.append((t["target"], "n"))
        if unwind and isinstance(t.get("unwind"), int):
            out.append((t["unwind"], "u"))
    return out


class CFG:
    def __init__(self, body):
        self.body = body
        self.n = len(body.blocks)
        self.succ = [[] for _ in range(self.n)]      # all edges
        self.nsucc = [[] for _ in range(self.n)]     # normal edges only
        self.pred = [[] for _ in range(self.n)]
        self.npred = [[] for _ in range(self.n)]
        for i, b in enumerate(body.blocks):
            seen = set()
            for (s, kind) in term_succs(b["term"]):
                if (s, kind) in seen:
                    continue
                seen.add((s, kind))
                self.succ[i].append(s)
                self.pred[s].append(i)
                if kind == "n":
                    self.nsucc[i].append(s)
                    self.npred[s].append(i)
        self.cleanup = [b["cleanup"] for b in body.blocks]
        self._dom = None
        self._pdom = None
        self._reach = {}

    # --- reachability on normal edges
    def reachable_from(self, start, normal_only=True, avoid=()):
        key = (start, normal_only, tuple(sorted(avoid)))
        if key in self._reach:
            return self._reach[key]
        succ = self.nsucc if normal_only else self.succ
        seen = set()
        st = [start]
        while st:
            x = st.pop()
            if x in seen or x in avoid:
                continue
            seen.add(x)
            st.extend(succ[x])
        self._reach[key] = seen
        return seen

    def normal_blocks(self):
        return self.reachable_from(0, True)

    def return_blocks(self):
        return [i for i in self.normal_blocks() if self.body.blocks[i]["term"]["k"] == "return"]

    # --- dominators (normal CFG, entry bb0)
    def dominators(self):
        if self._dom is not None:
            return self._dom
        nodes = sorted(self.normal_blocks())
        dom = {x: set(nodes) for x in nodes}
        dom[0] = {0}
        changed = True
        while changed:
            changed = False
            for x in nodes:
                if x == 0:
                    continue
                ps = [p for p in self.npred[x] if p in dom]
                if not ps:
                    new = {x}
                else:
                    new = set.intersection(*(dom[p] for p in ps)) | {x}
                if new != dom[x]:
                    dom[x] = new
                    changed = True
        self._dom = dom
        return dom

    def dominates(self, a, b):
        """block a dominates block b (normal CFG)"""
        d = self.dominators()
        return b in d and a in d[b]

    # --- post-dominators w.r.t. normal returns
    def postdominators(self):
        if self._pdom is not None:
            return self._pdom
        nodes = sorted(self.normal_blocks())
        exits = [x for x in nodes if not self.nsucc[x]]
        EXIT = -1
        succ = {x: (list(self.nsucc[x]) if self.nsucc[x] else [EXIT]) for x in nodes}
        pd = {x: set(nodes) | {EXIT} for x in nodes}
        pd[EXIT] = {EXIT}
        changed = True
        while changed:
            changed = False
            for x in reversed(nodes):
                new = set.intersection(*(pd[s] for s in succ[x])) | {x}
                if new != pd[x]:
                    pd[x] = new
                    changed = True
        self._pdom = pd
        return pd

    # --- natural loops
    def back_edges(self):
        out = []
        dom = self.dominators()
        for x in dom:
            for s in self.nsucc[x]:
                if s in dom[x]:
                    out.append((x, s))
        return out

    def loops(self):
        """dict header -> set(blocks in the natural loop)"""
        loops = {}
        for (tail, head) in self.back_edges():
            body = {head}
            st = [tail]
            while st:
                x = st.pop()
                if x in body:
                    continue
                body.add(x)
                st.extend(p for p in self.npred[x])
            loops.setdefault(head, set()).update(body)
        return loops

    def all_paths_pass(self, src, targets, through, normal_only=True):
        """True iff every path (normal edges) from block src to any block in `targets`
        passes a block in `through` (src itself excluded unless in through)."""
        avoid = set(through)
        if src in avoid:
            return True
        reach = self.reachable_from(src, normal_only, avoid=tuple(avoid))
        return not (set(targets) & reach)


    # --- reachability that ignores switch edges ruled out by the variant of a directly constructed Result/Option/ControlFlow
    def feasible_reach(self, src, avoid=()):
        """Blocks reachable from `src` along normal edges, where an edge of a `switchInt(discriminant(x))` is followed only if the
        variant it selects is possible for x.  Variants are tracked from `x = Ok(..)`-style aggregates through plain moves and
        `Try::branch`; anything else (a call result, a write through a projection, a local whose address is taken mutably)
        is unknown.  Only prunes edges no execution can take: path-insensitive reachability is an upper bound of the result."""
        body = self.body
        TR = ("std::result::Result", "std::option::Option", "std::ops::ControlFlow")
        escaped = set()
        for bl in body.blocks:
            for st in bl["stmts"]:
                if st["k"] == "assign" and st["rv"]["k"] in ("ref", "rawptr") and (st["rv"].get("mut") or st["rv"]["k"] == "rawptr"):
                    pl = st["rv"]["place"]
                    if not any(e.get("k") == "deref" for e in pl["p"]):
                        escaped.add(pl["l"])
        avoid = set(avoid)

        def plain(op):
            if isinstance(op, dict) and op.get("k") in ("move", "copy") and not op["place"]["p"]:
                return op["place"]["l"]
            return None

        def transfer(bi, vals, dsrc):
            vals = dict(vals)
            dsrc = dict(dsrc)
            bl = body.blocks[bi]

            def kill(l):
                vals.pop(l, None)
                dsrc.pop(l, None)
                for d_, x_ in list(dsrc.items()):
                    if x_ == l:
                        dsrc.pop(d_)
            for st in bl["stmts"]:
                if st["k"] in ("live", "dead"):
                    kill(st["l"])
                    continue
                if st["k"] != "assign":
                    pl = st.get("place")
                    if isinstance(pl, dict) and "l" in pl:
                        kill(pl["l"])
                    continue
                pl, rv = st["place"], st["rv"]
                l = pl["l"]
                if pl["p"] or l in escaped:
                    kill(l)
                    continue
                new, src_of = None, None
                if rv["k"] == "aggregate" and rv.get("agg") == "adt" and rv.get("name") in TR:
                    new = frozenset([rv["variant"]])
                elif rv["k"] == "use":
                    x = plain(rv["op"])
                    if x is not None and x in vals:
                        new = vals[x]
                elif rv["k"] == "discr" and not rv["place"]["p"] and rv["place"]["l"] in vals:
                    new, src_of = vals[rv["place"]["l"]], rv["place"]["l"]
                kill(l)
                if new is not None:
                    vals[l] = new
                    if src_of is not None:
                        dsrc[l] = src_of
            t = bl["term"]
            outs = []
            if t["k"] == "call":
                d = t.get("dest")
                if isinstance(d, dict) and "l" in d:
                    new = None
                    fn = (t.get("func") or {}).get("c", {}).get("fn", {}) if isinstance(t.get("func"), dict) else {}
                    if not d["p"] and d["l"] not in escaped and fn.get("def") == "std::ops::Try::branch" and len(t["args"]) == 1:
                        x = plain(t["args"][0])
                        aty = t["args"][0].get("place", {}).get("ty", "") if isinstance(t["args"][0], dict) else ""
                        if x is not None and x in vals:
                            if aty.startswith("std::result::Result<"):
                                new = vals[x]                                   # Ok(0)->Continue(0), Err(1)->Break(1)
                            elif aty.startswith("std::option::Option<"):
                                new = frozenset(1 - v for v in vals[x])          # None(0)->Break(1), Some(1)->Continue(0)
                    kill(d["l"])
                    if new is not None:
                        vals[d["l"]] = new
                if t.get("target") is not None:
                    outs.append((t["target"], vals, dsrc))
            elif t["k"] == "switch":
                d = plain(t["discr"])
                S = vals.get(d) if d is not None else None
                listed = set(v for (v, _b) in t["targets"])
                for (v, b2) in t["targets"]:
                    if S is not None and v not in S:
                        continue
                    v2, d2 = vals, dsrc
                    if S is not None:
                        v2 = dict(vals)
                        v2[d] = frozenset([v])
                        if d in dsrc and dsrc[d] in v2:
                            v2[dsrc[d]] = frozenset([v])
                    outs.append((b2, v2, d2))
                if S is None or (S - listed):
                    outs.append((t["otherwise"], vals, dsrc))
            else:
                for s2 in self.nsucc[bi]:
                    outs.append((s2, vals, dsrc))
            return outs

        def join(a, b):
            (va, da), (vb, db) = a, b
            v = {}
            for l in va:
                if l in vb:
                    v[l] = va[l] | vb[l]
            d = {l: x for (l, x) in da.items() if db.get(l) == x and l in v and x in v}
            return (v, d)
        ins = {src: ({}, {})}
        work = [src]
        while work:
            bi = work.pop()
            if bi in avoid:
                continue
            for (s2, v2, d2) in transfer(bi, *ins[bi]):
                if s2 in avoid:
                    continue
                if s2 not in ins:
                    ins[s2] = (v2, d2)
                    work.append(s2)
                else:
                    j = join(ins[s2], (v2, d2))
                    if j != ins[s2]:
                        ins[s2] = j
                        work.append(s2)
        return set(ins) - avoid

    def all_feasible_paths_pass(self, src, targets, through):
        """like all_paths_pass, but edges ruled out by a known enum variant (see feasible_reach) are not paths"""
        avoid = set(through)
        if src in avoid:
            return True
        return not (set(targets) & self.feasible_reach(src, avoid=avoid))


_CFGS = {}


def cfg_of(body):
    c = _CFGS.get(id(body))
    if c is None or c.body is not body:
        c = CFG(body)
        _CFGS[id(body)] = c
    return c
