"""E1 (part 1): per-body control-flow graph utilities over MIR facts."""
from functools import lru_cache


def term_succs(t, unwind=True):
    """Successor block ids of a terminator. Returns list of (bb, kind) kind in {'n','u'}."""
    k = t["k"]
    out = []
    if k == "goto":
        out.append((t["target"], "n"))
    elif k == "switch":
        for _v, b in t["targets"]:
            out.append((b, "n"))
        out.append((t["otherwise"], "n"))
    elif k in ("call", "drop", "assert"):
        if t.get("target") is not None:
            out.append((t["target"], "n"))
        if unwind and isinstance(t.get("unwind"), int):
            out.append((t["unwind"], "u"))
    return out


class CFG:
    def __init__(self, body):
        self.body = body
        self.n = len(body.blocks)
        self.succ = [[] for _ in range(self.n)]      # all edges
        self.nsucc = [[] for _ in range(self.n)]     # normal edges only
        self.pred = [[] for _ in range(self.n)]
        self.npred = [[] for _ in range(self.n)]
        for i, b in enumerate(body.blocks):
            seen = set()
            for (s, kind) in term_succs(b["term"]):
                if (s, kind) in seen:
                    continue
                seen.add((s, kind))
                self.succ[i].append(s)
                self.pred[s].append(i)
                if kind == "n":
                    self.nsucc[i].append(s)
                    self.npred[s].append(i)
        self.cleanup = [b["cleanup"] for b in body.blocks]
        self._dom = None
        self._pdom = None
        self._reach = {}

    # --- reachability on normal edges
    def reachable_from(self, start, normal_only=True, avoid=()):
        key = (start, normal_only, tuple(sorted(avoid)))
        if key in self._reach:
            return self._reach[key]
        succ = self.nsucc if normal_only else self.succ
        seen = set()
        st = [start]
        while st:
            x = st.pop()
            if x in seen or x in avoid:
                continue
            seen.add(x)
            st.extend(succ[x])
        self._reach[key] = seen
        return seen

    def normal_blocks(self):
        return self.reachable_from(0, True)

    def return_blocks(self):
        return [i for i in self.normal_blocks() if self.body.blocks[i]["term"]["k"] == "return"]

    # --- dominators (normal CFG, entry bb0)
    def dominators(self):
        if self._dom is not None:
            return self._dom
        nodes = sorted(self.normal_blocks())
        dom = {x: set(nodes) for x in nodes}
        dom[0] = {0}
        changed = True
        while changed:
            changed = False
            for x in nodes:
                if x == 0:
                    continue
                ps = [p for p in self.npred[x] if p in dom]
                if not ps:
                    new = {x}
                else:
                    new = set.intersection(*(dom[p] for p in ps)) | {x}
                if new != dom[x]:
                    dom[x] = new
                    changed = True
        self._dom = dom
        return dom

    def dominates(self, a, b):
        """block a dominates block b (normal CFG)"""
        d = self.dominators()
        return b in d and a in d[b]

    # --- post-dominators w.r.t. normal returns
    def postdominators(self):
        if self._pdom is not None:
            return self._pdom
        nodes = sorted(self.normal_blocks())
        exits = [x for x in nodes if not self.nsucc[x]]
        EXIT = -1
        succ = {x: (list(self.nsucc[x]) if self.nsucc[x] else [EXIT]) for x in nodes}
        pd = {x: set(nodes) | {EXIT} for x in nodes}
        pd[EXIT] = {EXIT}
        changed = True
        while changed:
            changed = False
            for x in reversed(nodes):
                new = set.intersection(*(pd[s] for s in succ[x])) | {x}
                if new != pd[x]:
                    pd[x] = new
                    changed = True
        self._pdom = pd
        return pd

    # --- natural loops
    def back_edges(self):
        out = []
        dom = self.dominators()
        for x in dom:
            for s in self.nsucc[x]:
                if s in dom[x]:
                    out.append((x, s))
        return out

    def loops(self):
        """dict header -> set(blocks in the natural loop)"""
        loops = {}
        for (tail, head) in self.back_edges():
            body = {head}
            st = [tail]
            while st:
                x = st.pop()
                if x in body:
                    continue
                body.add(x)
                st.extend(p for p in self.npred[x])
            loops.setdefault(head, set()).update(body)
        return loops

    def all_paths_pass(self, src, targets, through, normal_only=True):
        """True iff every path (normal edges) from block src to any block in `targets`
        passes a block in `through` (src itself excluded unless in through)."""
        avoid = set(through)
        if src in avoid:
            return True
        reach = self.reachable_from(src, normal_only, avoid=tuple(avoid))
        return not (set(targets) & reach)


_CFGS = {}


def cfg_of(body):
    c = _CFGS.get(id(body))
    if c is None or c.body is not body:
        c = CFG(body)
        _CFGS[id(body)] = c
    return c
