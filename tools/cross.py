#!/usr/bin/env python3
"""Cross test: a seeded mutant applied ON TOP OF a behaviour-preserving refactoring must still be reported by its own check
(the machinery that makes the checks tolerant of refactorings must not make them blind).  For every seeded/own mutant up to N
refactorings are chosen that touch the same file and with which the mutant still applies.
usage: cross.py [N=3] [filters...]   writes selftest/cross.json"""
import os, sys, json, glob, shutil, subprocess, tempfile, random
from concurrent.futures import ThreadPoolExecutor
HERE = os.path.dirname(os.path.dirname(os.path.abspath(__file__)))


def files_of(patch):
    return set(l.split(" b/")[-1].strip() for l in open(patch) if l.startswith("+++ "))


def mk(base_patch, top_patch):
    S = tempfile.mkdtemp(prefix="lmv-cx.", dir="/tmp")
    repo = os.path.join(S, "repo")
    os.makedirs(repo)
    for f in ("Cargo.toml", "Cargo.lock", "src", "benches", "tests"):
        src = os.path.join("/repo", f)
        if os.path.isdir(src):
            shutil.copytree(src, os.path.join(repo, f))
        else:
            shutil.copy(src, repo)
    subprocess.run(["git", "init", "-q", "."], cwd=repo)
    for p in (base_patch, top_patch):
        r = subprocess.run(["git", "apply", "--whitespace=nowarn", p], cwd=repo, stdout=subprocess.PIPE, stderr=subprocess.PIPE)
        if r.returncode != 0:
            shutil.rmtree(S, ignore_errors=True)
            return None
    return S


def run_one(item):
    name, pid, S = item
    try:
        env = dict(os.environ, LMV_EVIDENCE_DIR=os.path.join(S, "ev"), LMV_CACHE=os.path.join(S, "cache"), TMPDIR=S, LMV_NO_SELFTEST="1")
        out = subprocess.run([os.path.join(HERE, "check"), pid, "--repo", os.path.join(S, "repo"), "--quiet"], cwd=HERE, env=env,
                             stdout=subprocess.PIPE, stderr=subprocess.PIPE, text=True)
        keys = []
        try:
            keys = json.load(open(os.path.join(S, "ev", pid + ".json")))["coverage"]["violation_keys"][:4]
        except Exception:
            pass
        return name, {"caught": out.returncode != 0, "keys": keys}
    finally:
        shutil.rmtree(S, ignore_errors=True)


def main():
    args = sys.argv[1:]
    N = int(args[0]) if args and args[0].isdigit() else 3
    flt = [a for a in args if not a.isdigit()]
    random.seed(7)
    benign = sorted(glob.glob(os.path.join(HERE, "selftest", "benign", "*.diff")))
    bfiles = {b: files_of(b) for b in benign}
    muts = [(os.path.basename(d), os.path.basename(d).split("-")[0], os.path.join(d, "patch.diff"))
            for d in sorted(glob.glob(os.path.join(HERE, "seeded", "*")))]
    muts += [(os.path.basename(f)[:-5], os.path.basename(f).split("-")[0], f) for f in sorted(glob.glob(os.path.join(HERE, "selftest", "mutants", "*.diff")))]
    if flt:
        muts = [m for m in muts if any(a in m[0] for a in flt)]
    items = []
    for (mname, pid, mp) in muts:
        mf = files_of(mp)
        cands = [b for b in benign if bfiles[b] & mf]
        random.shuffle(cands)
        got = 0
        for b in cands:
            if got >= N:
                break
            S = mk(b, mp)
            if S is None:
                continue
            got += 1
            items.append(("%s on %s" % (mname, os.path.basename(b)[:-5]), pid, S))
    print("%d combinations" % len(items), flush=True)
    with ThreadPoolExecutor(max_workers=int(os.environ.get("JOBS", "12"))) as ex:
        res = dict(ex.map(run_one, items))
    out = os.path.join(HERE, "selftest", "cross.json")
    old = json.load(open(out)) if os.path.exists(out) and flt else {}
    old.update(res)
    json.dump(old, open(out, "w"), indent=1, sort_keys=True)
    missed = [k for k, v in sorted(res.items()) if not v["caught"]]
    print("caught %d / %d" % (len(res) - len(missed), len(res)))
    for k in missed:
        print("MISSED", k)
    return 1 if missed else 0


if __name__ == "__main__":
    sys.exit(main())
