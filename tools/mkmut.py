#!/usr/bin/env python3
"""usage: mkmut.py <out.diff> <file-relative-to-repo>  (stdin: OLD\n=====\nNEW)  -> unified diff against /repo"""
import sys, difflib, os
out, rel = sys.argv[1], sys.argv[2]
spec = sys.stdin.read()
old, new = spec.split("\n=====\n")
old = old.strip("\n"); new = new.strip("\n")
src = open(os.path.join(os.environ.get("LMV_REPO", "/repo"), rel)).read()
if src.count(old) != 1:
    sys.exit("OLD occurs %d times in %s" % (src.count(old), rel))
dst = src.replace(old, new)
d = difflib.unified_diff(src.splitlines(True), dst.splitlines(True), "a/" + rel, "b/" + rel, n=3)
open(out, "w").write("".join(d))
print("wrote", out)
