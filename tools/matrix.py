#!/usr/bin/env python3
"""Run every check against every seeded / selftest mutant (and benign variant) in scratch copies, in parallel.
Writes selftest/matrix.json: {mutant: {"fires": [Cxx...], "keys": {Cxx: [violation keys]}}}"""
import os, sys, json, subprocess, tempfile, shutil, glob
from concurrent.futures import ThreadPoolExecutor
HERE = os.path.dirname(os.path.dirname(os.path.abspath(__file__)))
PROPS = ["C%02d" % i for i in range(1, 21)]


def run_one(item):
    name, patch = item
    S = tempfile.mkdtemp(prefix="lmv-mx.", dir="/tmp")
    try:
        repo = os.path.join(S, "repo")
        os.makedirs(repo)
        for f in ("Cargo.toml", "Cargo.lock", "src", "benches", "tests"):
            src = os.path.join("/repo", f)
            if os.path.isdir(src):
                shutil.copytree(src, os.path.join(repo, f))
            else:
                shutil.copy(src, repo)
        subprocess.run(["git", "init", "-q", "."], cwd=repo)
        r = subprocess.run(["git", "apply", "--whitespace=nowarn", patch], cwd=repo, stdout=subprocess.PIPE, stderr=subprocess.PIPE, text=True)
        if r.returncode != 0:
            return name, {"error": "patch does not apply"}
        env = dict(os.environ, LMV_EVIDENCE_DIR=os.path.join(S, "ev"), LMV_CACHE=os.path.join(S, "cache"), TMPDIR=S)
        fires, keys = [], {}
        for p in PROPS:
            out = subprocess.run([os.path.join(HERE, "check"), p, "--repo", repo, "--quiet"], cwd=HERE, env=env, stdout=subprocess.PIPE,
                                 stderr=subprocess.PIPE, text=True)
            if out.returncode != 0:
                fires.append(p)
                try:
                    ev = json.load(open(os.path.join(S, "ev", p + ".json")))
                    keys[p] = ev["coverage"]["violation_keys"][:6]
                except Exception:
                    keys[p] = ["?"]
        return name, {"fires": fires, "keys": keys}
    finally:
        shutil.rmtree(S, ignore_errors=True)


def main():
    items = []
    for d in sorted(glob.glob(os.path.join(HERE, "seeded", "*"))):
        items.append(("seeded/" + os.path.basename(d), os.path.join(d, "patch.diff")))
    for f in sorted(glob.glob(os.path.join(HERE, "selftest", "mutants", "*.diff"))):
        items.append(("mutant/" + os.path.basename(f)[:-5], f))
    for f in sorted(glob.glob(os.path.join(HERE, "selftest", "benign", "*.diff"))):
        items.append(("benign/" + os.path.basename(f)[:-5], f))
    if len(sys.argv) > 1:
        items = [it for it in items if any(a in it[0] for a in sys.argv[1:])]
    with ThreadPoolExecutor(max_workers=int(os.environ.get("JOBS", "6"))) as ex:
        res = dict(ex.map(run_one, items))
    out = os.path.join(HERE, "selftest", "matrix.json")
    old = {}
    if os.path.exists(out) and len(sys.argv) > 1:
        old = json.load(open(out))
    old.update(res)
    json.dump(old, open(out, "w"), indent=1, sort_keys=True)
    bad = 0
    for name, v in sorted(res.items()):
        own = name.split("/")[1].split("-")[0]
        f = v.get("fires", [])
        if name.startswith("benign/"):
            status = "OK (silent)" if not f else "FALSE ALARM"
        else:
            status = "caught by own check" if own in f else ("caught elsewhere only" if f else "MISSED")
        if status in ("FALSE ALARM", "MISSED") or "error" in v:
            bad += 1
        print("%-70s %-22s %s" % (name, status, ",".join(f) or v.get("error", "")))
    return 1 if bad else 0


if __name__ == "__main__":
    sys.exit(main())
