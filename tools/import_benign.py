#!/usr/bin/env python3
"""Import behaviour-preserving refactorings delivered by sub-agents (/tmp/ben/Bxx/deliver/refactorN.diff) into selftest/benign/
after re-running the whole suite with each of them in a scratch worktree.  usage: [BEN_DIR=/tmp/ben BEN_PREFIX=R] import_benign.py B01 B02 ..."""
import json, os, re, shutil, subprocess, sys
VERIF = os.path.dirname(os.path.dirname(os.path.abspath(__file__)))
WT, TGT = "/tmp/ibn/wt", "/tmp/ibn/target"
ENV = dict(os.environ, CARGO_NET_OFFLINE="true", CARGO_TARGET_DIR=TGT)


def sh(cmd, cwd=WT):
    r = subprocess.run(cmd, shell=True, cwd=cwd, env=ENV, stdout=subprocess.PIPE, stderr=subprocess.STDOUT, text=True)
    return r.returncode, r.stdout


def main():
    os.makedirs("/tmp/ibn", exist_ok=True)
    if not os.path.exists(WT):
        rc, out = sh("git -C /repo worktree add -q --detach %s HEAD && cp /repo/Cargo.lock %s/" % (WT, WT), cwd="/")
        assert rc == 0, out
    try:
        for b in sys.argv[1:]:
            d = "%s/%s/deliver" % (os.environ.get("BEN_DIR", "/tmp/ben"), b)
            try:
                meta = json.load(open(d + "/meta.json"))
            except Exception:
                meta = {"refactorings": []}
            for i in range(1, 5):
                pf = "%s/refactor%d.diff" % (d, i)
                if not os.path.exists(pf):
                    continue
                sh("git checkout -q -- . && git clean -fdq src tests")
                rc, out = sh("git apply --whitespace=nowarn %s" % pf)
                if rc != 0:
                    print(b, i, "DOES NOT APPLY"); continue
                rc, out = sh("cargo test --offline --no-fail-fast 2>&1")
                res = re.findall(r"test result: (\w+)\. (\d+) passed; (\d+) failed", out)
                ok = bool(res) and all(x[0] == "ok" for x in res) and sum(int(x[1]) for x in res) >= 134
                summ = ""
                for m in meta.get("refactorings", []):
                    if m.get("patch") == "refactor%d.diff" % i:
                        summ = m.get("summary", "")
                print(b, i, "suite ok" if ok else "SUITE FAILS", "|", summ[:110], flush=True)
                if ok:
                    name = "%s-%s-%d" % (os.environ.get("BEN_PREFIX", "R"), b, i)
                    shutil.copy(pf, os.path.join(VERIF, "selftest", "benign", name + ".diff"))
                    json.dump({"author": "independent sub-agent asked for behaviour-preserving refactorings of one region", "summary": summ,
                               "why_equivalent": next((m.get("why_equivalent") for m in meta.get("refactorings", [])
                                                       if m.get("patch") == "refactor%d.diff" % i), None),
                               "suite": "passes with the change (re-run by me)"},
                              open(os.path.join(VERIF, "selftest", "benign", name + ".json"), "w"), indent=1)
    finally:
        subprocess.run("git -C /repo worktree remove --force %s; rm -rf /tmp/ibn" % WT, shell=True)


if __name__ == "__main__":
    main()
