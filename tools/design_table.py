#!/usr/bin/env python3
"""Print the markdown table of DESIGN.md section 8.5 from seeded/*/meta.json and selftest/matrix.json."""
import json, glob, os, re
HERE = os.path.dirname(os.path.dirname(os.path.abspath(__file__)))
m = json.load(open(os.path.join(HERE, "selftest", "matrix.json")))
print("| change | what it does | reported by |")
print("|---|---|---|")
for d in sorted(glob.glob(os.path.join(HERE, "seeded", "*")), key=lambda p: (os.path.basename(p).split("-")[0], int(os.path.basename(p).split("-")[1]))):
    n = os.path.basename(d)
    meta = json.load(open(os.path.join(d, "meta.json")))
    s = re.sub(r"\s+", " ", meta.get("summary") or "").replace("|", "/")
    if len(s) > 150:
        s = s[:150] + "..."
    f = m.get("seeded/" + n, {}).get("fires", [])
    own = n.split("-")[0]
    print("| %s | %s | %s |" % (n, s, ", ".join(("**%s**" % x) if x == own else x for x in f) or "—"))
print()
print("| own mutant (selftest/mutants) | reported by |")
print("|---|---|")
for k in sorted(m):
    if k.startswith("mutant/"):
        print("| %s | %s |" % (k[7:], ", ".join(m[k].get("fires", [])) or "—"))
print()
print("| behaviour-preserving variant (selftest/benign) | reported by |")
print("|---|---|")
waves = {}
for k in sorted(m):
    if k.startswith("benign/"):
        n = k[7:]
        w = n.split("-")[0]
        if w in ("R", "R2", "R3", "R4"):
            waves.setdefault(w, []).append((n, m[k].get("fires", [])))
            continue
        print("| %s | %s |" % (n, ", ".join(m[k].get("fires", [])) or "— (silent)"))
for w in ("R", "R2", "R3", "R4"):
    if w in waves:
        loud = [(n, f) for (n, f) in waves[w] if f]
        print("| wave %s of sub-agent refactorings: %d variants | %d silent%s |" % (
            w, len(waves[w]), len(waves[w]) - len(loud),
            ("; still firing: " + "; ".join("%s (%s)" % (n, ", ".join(f)) for n, f in loud)) if loud else ""))
