import sys, time
from lmv.ctx import Ctx
from lmv.absint import *
from lmv.absmodels import enum_sig
from lmv.lin import *
c=Ctx()
ip=Interp(c)
r=c.roles
def entry_state(ip):
    st=St()
    cache=("O","cache0"); seal=("O","seal0")
    CS,MS,G,N=[Lin.sym(x) for x in ("CS0","MS0","G0","N0")]
    for s in (CS,MS,G,N): st.num.add(ge(s,0))
    st.num.add(eq(CS,G)); st.num.add(le(CS,MS))
    tv=mkstruct(RAWTABLE,{"N":vint(N),"G":vint(G),"#tid":("tid",0)})
    st.store[seal]=mkstruct(r.entry,{"#seal_of":cache})
    st.store[cache]=mkstruct(r.cache,{r.TABLE:tv,r.SEAL:ip.eptr(("ptr",seal,())),r.CS:vint(CS),r.MS:vint(MS),r.HB:("opq",0)})
    return st,cache
names=[a for a in sys.argv[1:] if not a.startswith("--")] or ["set_max_size","remove_lru","clear","touch"]
for name in names:
    b=r.method(name)
    st,cache=entry_state(ip)
    args=[("ptr",cache,())]
    for t in b.j["inputs"][1:]:
        args.append(ip.fresh_of_ty(st,t,"arg"))
    t0=time.time()
    try:
        outs=ip.call_body(b,args,st,())
    except Unsupported as e:
        print(name,"UNSUPPORTED",e); continue
    print(name, len(outs),"exit partitions %.1fs"%(time.time()-t0))
    for rv,s in outs:
        cv=s.store[cache]
        print("   ret",enum_sig(rv) if rv[0]=='enum' else rv[0]," CS=",cv[2][r.CS][1]," MS=",cv[2][r.MS][1]," G=",cv[2][r.TABLE][2]["G"][1], " CS<=MS:",s.num.entails(le(cv[2][r.CS][1],cv[2][r.MS][1])), " CS==G:", s.num.entails(eq(cv[2][r.CS][1],cv[2][r.TABLE][2]["G"][1])), "ncons",len(s.num.cons))
print(ip.stats, ip.unmodelled)
for k,v in ip.obligs.items(): print(k[0], v['ok'], v['desc'], v['failed'], v['loc'])
if "--dump" in sys.argv:
    for rv,s in outs:
        print("---- exit state"); 
        for k,v in s.store.items():
            if k[0] in ("O","C"): print(k, v)
        for c in s.num.cons: print("   ", cstr(c))
