#!/usr/bin/env python3
"""Verify mutants delivered by sub-agents (in /tmp/seed/Cxx/deliver) in a scratch worktree and, if confirmed,
store them under /verif/seeded/<id>/.  usage: verify_seeds.py C01 C02 ..."""
import json, os, shutil, subprocess, sys, re
VS = os.environ.get("VS_DIR", "/tmp/vs")
WT = VS + "/wt"
TGT = VS + "/target"
VERIF = "/verif"
ENV = dict(os.environ, CARGO_NET_OFFLINE="true", CARGO_TARGET_DIR=TGT, RUST_BACKTRACE="0")


def sh(cmd, cwd=WT, timeout=1200):
    r = subprocess.run(cmd, shell=True, cwd=cwd, env=ENV, stdout=subprocess.PIPE, stderr=subprocess.STDOUT, text=True, timeout=timeout)
    return r.returncode, r.stdout


def setup():
    if not os.path.exists(WT):
        os.makedirs(VS, exist_ok=True)
        rc, out = sh("git -C /repo worktree add -q --detach %s HEAD && cp /repo/Cargo.lock %s/" % (WT, WT), cwd="/")
        assert rc == 0, out


def reset():
    sh("git checkout -q -- . && git clean -fdq tests src")


def summarize(out):
    res = re.findall(r"test result: (\w+)\. (\d+) passed; (\d+) failed", out)
    return {"ok": bool(res) and all(x[0] == "ok" for x in res), "passed": sum(int(x[1]) for x in res), "failed": sum(int(x[2]) for x in res),
            "compiled": "error: could not compile" not in out and "error[E" not in out}


def verify(pid):
    d = "%s/%s/deliver" % (os.environ.get("SEED_DIR", "/tmp/seed"), pid)
    if not os.path.isdir(d):
        print(pid, "no deliver dir"); return
    try:
        meta = json.load(open(os.path.join(d, "meta.json")))
    except Exception as e:
        meta = {"mutants": []}
        print(pid, "meta.json unreadable:", e)
    muts = meta.get("mutants") or []
    if not muts:
        muts = [{"patch": "mutant%d.diff" % i, "demo": "demo%d.rs" % i} for i in (1, 2) if os.path.exists(os.path.join(d, "mutant%d.diff" % i))]
    head = subprocess.run("git -C /repo rev-parse --short HEAD", shell=True, stdout=subprocess.PIPE, text=True).stdout.strip()
    for i, m in enumerate(muts, 1 + int(os.environ.get("SEED_OFFSET", "0"))):
        patch = os.path.join(d, m["patch"]); demo = os.path.join(d, m["demo"])
        name = "%s-%d" % (pid, i)
        reset()
        rc, out = sh("git apply --whitespace=nowarn %s" % patch)
        if rc != 0:
            print(name, "PATCH DOES NOT APPLY", out[-300:]); continue
        rc, out = sh("cargo test --offline --no-fail-fast 2>&1")
        suite = summarize(out)
        shutil.copy(demo, os.path.join(WT, "tests", "seed_demo.rs"))
        rc_m, out_m = sh("cargo test --offline --test seed_demo 2>&1")
        dm = summarize(out_m)
        sh("git checkout -q -- src")
        rc_p, out_p = sh("cargo test --offline --test seed_demo 2>&1")
        dp = summarize(out_p)
        kind = m.get("demo_kind")
        confirmed = suite["ok"] and suite["failed"] == 0 and suite["passed"] >= 134 and \
            ((rc_m != 0 and rc_p == 0 and dp["ok"]) or (kind == "compiles_only_with_mutant" and rc_m == 0 and rc_p != 0))
        print(name, "suite:", suite, "| demo with mutant rc=%d %s | demo pristine rc=%d %s | CONFIRMED=%s" % (rc_m, dm, rc_p, dp, confirmed))
        if confirmed:
            dst = os.path.join(VERIF, "seeded", name)
            os.makedirs(dst, exist_ok=True)
            shutil.copy(patch, os.path.join(dst, "patch.diff"))
            shutil.copy(demo, os.path.join(dst, "demo.rs"))
            json.dump({
                "property": pid,
                "summary": m.get("summary"),
                "needs": m.get("needs"),
                "author": "independent sub-agent given only the property text and a scratch worktree",
                "agent_report": m.get("how_demonstrated"),
                "demo_kind": kind or "integration test: fails with the change, passes without it",
                "verified_by_me": {
                    "repo_head": head,
                    "ran": ["git apply patch.diff (scratch worktree)", "cargo test --offline --no-fail-fast (full suite)",
                            "cargo test --offline --test seed_demo (demo with the change)",
                            "git checkout -- src; cargo test --offline --test seed_demo (demo without the change)"],
                    "suite_with_change": suite,
                    "demo_with_change": {"rc": rc_m, **dm},
                    "demo_without_change": {"rc": rc_p, **dp},
                },
            }, open(os.path.join(dst, "meta.json"), "w"), indent=1)
    reset()


if __name__ == "__main__":
    setup()
    for pid in sys.argv[1:]:
        verify(pid)
