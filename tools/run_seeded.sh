#!/bin/bash
# usage: tools/run_seeded.sh [name-glob]  -- for each seeded mutant run the check of its property (and print others on request)
cd "$(dirname "$0")/.."
for d in seeded/${1:-*}/; do
  n=$(basename $d); p=${n%%-*}
  extra=${EXTRA:-}
  out=$(tools/try_patch.sh $d/patch.diff $p $extra 2>&1 | grep -v "^WARNING")
  echo "### $n"; echo "$out" | head -${LINES_MAX:-8}
done
