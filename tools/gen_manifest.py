#!/usr/bin/env python3
"""Generate /verif/MANIFEST.json from lmv/registry.py (single source of truth)."""
import json, os, sys
HERE = os.path.dirname(os.path.dirname(os.path.abspath(__file__)))
sys.path.insert(0, HERE)
from lmv import registry

ALL = ["C%02d" % i for i in range(1, 21)]
checks = []
for pid in ALL:
    if pid not in registry.PROPS:
        continue
    sp = registry.PROPS[pid]
    checks.append({
        "property_id": pid,
        "quick_cmd": "./check %s --tier quick" % pid,
        "thorough_cmd": "./check %s --tier thorough" % pid,
        "evidence_file": "/verif/evidence/%s.json" % pid,
        "replay_cmd_template": "./check %s --explain {path}" % pid,
        "engine": "lmv",
        "level_claimed": {"category": sp["level"], "text": sp["explanation"], "design_ref": sp["design_ref"]},
        "level_note": sp["note"],
        "technique": sp["technique"],
    })
na = []
for pid in ALL:
    if pid not in registry.PROPS:
        na.append({"property_id": pid, "reason": registry.NOT_CLAIMED.get(pid, "check not built yet; see DESIGN.md section 3 for the planned static rule")})
m = {
    "version": 1,
    "setup_cmd": "cd /verif/driver && CARGO_NET_OFFLINE=true cargo +nightly build --release --offline",
    "hooks": {
        "guard": "lru_mem_verif",
        "enable": "RUSTFLAGS='--cfg lru_mem_verif' (passed by extract.sh; no hook code exists: the analysis reads unmodified sources)",
        "baseline_off_cmd": "cd /repo && cargo test --workspace --no-fail-fast --offline",
        "source_commits": [],
        "add_only": True,
    },
    "engines": [
        {"name": "lmv-driver", "path": "/verif/driver", "serves_properties": [c["property_id"] for c in checks],
         "kind_free_text": "rustc_private fact extractor (MIR, ADTs, impls) run as RUSTC_WORKSPACE_WRAPPER over /repo's working tree"},
        {"name": "lmv", "path": "/verif/lmv", "serves_properties": [c["property_id"] for c in checks],
         "kind_free_text": "Python static-analysis engines over the extracted facts: CFG/dominators, call graph with closure and "
                           "type-driven edges, effect summaries, provenance/taint, term algebra, abstract interpretation, compiler probes"},
    ],
    "checks": checks,
    "not_applicable": na,
    "notes": "Static analysis only: every verdict is computed from rustc's type-checked MIR of /repo's current tree or from "
             "rustc accepting/rejecting probe programs. Known findings: /verif/known_findings.json. Seeded mutants: /verif/seeded/.",
}
with open(os.path.join(HERE, "MANIFEST.json"), "w") as fh:
    json.dump(m, fh, indent=1)
print("MANIFEST.json: %d checks, %d not_applicable" % (len(checks), len(na)))
