#!/bin/bash
# usage: tools/try_patch.sh <patch.diff> <Cxx> [<Cxx> ...]
# Applies the patch to a scratch copy of /repo (outside /repo and /verif), runs the given checks against it,
# prints their verdicts, removes the scratch copy.  Evidence goes to a temp dir (never to /verif/evidence).
set -u
PATCH=$(readlink -f "$1"); shift
HERE=$(cd "$(dirname "$0")/.." && pwd)
S=$(mktemp -d /tmp/lmv-scratch.XXXXXX)
trap 'rm -rf "$S"' EXIT
mkdir -p "$S/repo" "$S/ev"
( cd /repo && cp -r Cargo.toml Cargo.lock src benches tests "$S/repo/" )
if ! ( cd "$S/repo" && git init -q . 2>/dev/null && git apply --whitespace=nowarn "$PATCH" ); then
  echo "PATCH-DOES-NOT-APPLY $PATCH"; exit 3
fi
rc=0
for P in "$@"; do
  out=$(cd "$HERE" && LMV_EVIDENCE_DIR="$S/ev" ./check "$P" --repo "$S/repo" ${TIER:+--tier $TIER} 2>&1)
  r=$?
  nv=$(echo "$out" | grep -c '^VIOLATION')
  echo "== $P rc=$r violations=$nv"
  echo "$out" | grep -E '^\s+\[|^ERROR|Traceback|Error' | head -${SHOW:-6}
  [ $r -ne 0 ] && rc=1
done
exit $rc
