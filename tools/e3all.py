import sys
from lmv.ctx import Ctx
from lmv import e3
from collections import Counter
c=Ctx(sys.argv[1] if len(sys.argv)>1 else None)
d=e3.run(c)
print("wall", d["wall_s"], "crashed", d["crashed"], "unmodelled", d["unmodelled"])
print(Counter((r["prop"], r["ok"]) for r in d["records"]))
for r in d["records"]:
    if not r["ok"]: print("FAIL", r["prop"], r["key"], "|", r["desc"][:160], r.get("detail"))
if len(sys.argv) > 2:
    for r in d["records"]:
        if sys.argv[2] in r["key"]: print("OK  " if r["ok"] else "FAIL", r["prop"], r["key"], "|", r["desc"][:140])
