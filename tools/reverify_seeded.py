#!/usr/bin/env python3
"""Re-verify the mutants kept under /verif/seeded against /repo's current HEAD in a scratch worktree (removed afterwards):
the full suite passes with the change, the demonstration fails with it and passes without it.  Updates meta.json["verified_by_me"].
usage: reverify_seeded.py [id-substring ...]      (C19-2 is a miri-only demonstration and is only checked for suite + native pass)"""
import json, os, shutil, subprocess, sys, re, glob
WT = "/tmp/rvs/wt"
TGT = "/tmp/rvs/target"
VERIF = os.path.dirname(os.path.dirname(os.path.abspath(__file__)))
ENV = dict(os.environ, CARGO_NET_OFFLINE="true", CARGO_TARGET_DIR=TGT, RUST_BACKTRACE="0")


def sh(cmd, cwd=WT, timeout=2400):
    r = subprocess.run(cmd, shell=True, cwd=cwd, env=ENV, stdout=subprocess.PIPE, stderr=subprocess.STDOUT, text=True, timeout=timeout)
    return r.returncode, r.stdout


def summarize(out):
    res = re.findall(r"test result: (\w+)\. (\d+) passed; (\d+) failed", out)
    return {"ok": bool(res) and all(x[0] == "ok" for x in res), "passed": sum(int(x[1]) for x in res), "failed": sum(int(x[2]) for x in res),
            "compiled": "error: could not compile" not in out and "error[E" not in out}


def main():
    os.makedirs("/tmp/rvs", exist_ok=True)
    if not os.path.exists(WT):
        rc, out = sh("git -C /repo worktree add -q --detach %s HEAD && cp /repo/Cargo.lock %s/" % (WT, WT), cwd="/")
        assert rc == 0, out
    head = subprocess.run("git -C /repo rev-parse --short HEAD", shell=True, stdout=subprocess.PIPE, text=True).stdout.strip()
    bad = 0
    try:
        for d in sorted(glob.glob(os.path.join(VERIF, "seeded", "*"))):
            name = os.path.basename(d)
            if len(sys.argv) > 1 and not any(a in name for a in sys.argv[1:]):
                continue
            sh("git checkout -q -- . && git clean -fdq tests src")
            rc, out = sh("git apply --whitespace=nowarn %s/patch.diff" % d)
            if rc != 0:
                print(name, "PATCH DOES NOT APPLY", out[-300:]); bad += 1; continue
            rc, out = sh("cargo test --offline --no-fail-fast 2>&1")
            suite = summarize(out)
            shutil.copy(os.path.join(d, "demo.rs"), os.path.join(WT, "tests", "seed_demo.rs"))
            rc_m, out_m = sh("cargo test --offline --test seed_demo 2>&1")
            dm = summarize(out_m)
            sh("git checkout -q -- src")
            rc_p, out_p = sh("cargo test --offline --test seed_demo 2>&1")
            dp = summarize(out_p)
            meta = json.load(open(os.path.join(d, "meta.json")))
            miri_only = "miri" in (meta.get("demo_kind") or "") and "natively either way" in (meta.get("demo_kind") or "")
            ok = suite["ok"] and suite["failed"] == 0 and suite["passed"] >= 134 and rc_p == 0 and dp["ok"] and (rc_m != 0 or miri_only)
            print(name, "suite", suite["passed"], suite["failed"], "| with rc=%d | without rc=%d | %s" % (rc_m, rc_p, "CONFIRMED" if ok else "NOT CONFIRMED"),
                  flush=True)
            if not ok:
                bad += 1
                open("/tmp/rvs/%s.log" % name, "w").write(out[-3000:] + "\n=====WITH\n" + out_m[-6000:] + "\n=====WITHOUT\n" + out_p[-6000:])
                continue
            vb = meta.setdefault("verified_by_me", {})
            vb.update({"repo_head": head, "suite_with_change": suite, "demo_with_change": {"rc": rc_m, **dm},
                       "demo_without_change": {"rc": rc_p, **dp}})
            json.dump(meta, open(os.path.join(d, "meta.json"), "w"), indent=1)
    finally:
        subprocess.run("git -C /repo worktree remove --force %s; rm -rf /tmp/rvs/target /tmp/rvs/wt" % WT, shell=True)
    return 1 if bad else 0


if __name__ == "__main__":
    sys.exit(main())
