use lru_mem::HeapSize;
use std::sync::{Arc, Mutex, RwLock};
fn main() {
    let m = Arc::new(Mutex::new(String::with_capacity(32)));
    let m2 = m.clone();
    let _ = std::thread::spawn(move || { let _g = m2.lock().unwrap(); panic!("poison"); }).join();
    assert!(m.is_poisoned());
    println!("mutex heap_size={}", m.heap_size());
    let r = Arc::new(RwLock::new(String::with_capacity(32)));
    let r2 = r.clone();
    let _ = std::thread::spawn(move || { let _g = r2.write().unwrap(); panic!("poison"); }).join();
    println!("rwlock heap_size={}", r.heap_size());
    println!("F5 ok");
}
