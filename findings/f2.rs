// F2 (C17): leak a Drain after one next(): value dropped twice.
use lru_mem::{LruCache, HeapSize};
use std::sync::atomic::{AtomicUsize, Ordering::SeqCst};
static DROPS: AtomicUsize = AtomicUsize::new(0);
#[derive(Debug)] struct V(#[allow(dead_code)] u32);
impl Drop for V { fn drop(&mut self) { DROPS.fetch_add(1, SeqCst); } }
impl HeapSize for V { fn heap_size(&self) -> usize { 0 } }
fn main() {
    let mut c: LruCache<u32, V> = LruCache::new(1 << 20);
    for i in 0..3 { c.insert(i, V(i)).unwrap(); }
    let mut d = c.drain();
    let first = d.next().unwrap();
    std::mem::forget(d);
    drop(first);
    // cache must remain valid and usable
    let n_after = c.len();
    drop(c);
    let drops = DROPS.load(SeqCst);
    println!("drops={} len_after_forget={}", drops, n_after);
    assert!(drops <= 3, "a value was dropped twice: {} drops for 3 values", drops);
    println!("F2 ok");
}
