use lru_mem::HeapSize;
use std::path::PathBuf;
fn main() {
    let mut p = PathBuf::with_capacity(100);
    p.push("a");
    println!("capacity={} heap_size={}", p.capacity(), p.heap_size());
    assert_eq!(p.capacity(), p.heap_size());
    println!("F3 ok");
}
