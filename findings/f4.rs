use lru_mem::MemSize;
fn main() {
    let v: Vec<[String; 0]> = vec![[]; 10_000_000];
    println!("mem_size={}", v.mem_size());
    println!("F4 ok");
}
