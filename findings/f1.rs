// F1 (C16): Hash panics during reserve() -> old table freed while links point into it.
use lru_mem::{LruCache, HeapSize};
use std::hash::{Hash, Hasher};
use std::cell::Cell;
use std::panic::{catch_unwind, AssertUnwindSafe};
thread_local!{ static BOOM: Cell<i64> = Cell::new(-1); }
#[derive(PartialEq, Eq, Debug)]
struct K(u64);
impl Hash for K { fn hash<H: Hasher>(&self, h: &mut H) {
    BOOM.with(|b| { let v = b.get(); if v == 0 { panic!("hash boom"); } if v > 0 { b.set(v-1); } });
    self.0.hash(h) } }
impl HeapSize for K { fn heap_size(&self) -> usize { 0 } }
fn main() {
    let mut c: LruCache<K, String> = LruCache::new(1 << 20);
    for i in 0..5 { c.insert(K(i), format!("value-{i}")).unwrap(); }
    BOOM.with(|b| b.set(2));
    let r = catch_unwind(AssertUnwindSafe(|| c.reserve(100)));
    assert!(r.is_err());
    BOOM.with(|b| b.set(-1));
    // the cache must still be usable and coherent
    let fwd: Vec<u64> = c.iter().map(|(k, _)| k.0).collect();
    let mut bwd: Vec<u64> = c.iter().rev().map(|(k, _)| k.0).collect();
    bwd.reverse();
    assert_eq!(fwd, bwd, "mirror");
    assert_eq!(fwd.len(), c.len(), "len");
    for k in &fwd { assert!(c.contains(&K(*k)), "lookup agrees"); }
    println!("F1 ok: len={} fwd={:?}", c.len(), fwd);
}
