// F6 (C01): mutate adds the growth to current_size before making room: with a huge limit the sum exceeds usize::MAX.
use lru_mem::{LruCache, HeapSize, entry_size};
use std::cell::Cell;
#[derive(Debug)]
struct V(Cell<usize>);
impl HeapSize for V { fn heap_size(&self) -> usize { self.0.get() } }
fn main() {
    let half = usize::MAX / 2;
    let mut c: LruCache<u8, V> = LruCache::new(usize::MAX);
    c.insert(1, V(Cell::new(half))).unwrap();
    c.insert(2, V(Cell::new(half - 1000))).unwrap();
    println!("len={} free={}", c.len(), c.max_size() - c.current_size());
    // grow entry 2 by 5000 bytes: it still fits alone (about half of the limit), entry 1 must be evicted to make room
    let r = std::panic::catch_unwind(std::panic::AssertUnwindSafe(|| c.mutate(&2, |v| v.0.set(v.0.get() + 5000))));
    match r {
        Err(_) => { println!("mutate panicked (debug build: attempt to add with overflow)"); std::process::exit(1) }
        Ok(res) => {
            res.unwrap();
            let sum: usize = c.iter().map(|(k, v)| entry_size(k, v)).fold(0usize, |a, b| a.checked_add(b).unwrap_or(usize::MAX));
            println!("len={} current_size={} real sum (saturating)={} max={}", c.len(), c.current_size(), sum, c.max_size());
            assert!(c.current_size() == sum && c.len() == 1, "bound/accounting broken");
            println!("F6 ok");
        }
    }
}
