// lmv-driver: rustc_private fact extractor for the lru-mem static checks.
//
// Used as RUSTC_WORKSPACE_WRAPPER.  For the crate named by LMV_CRATE (default
// `lru_mem`) it serialises the type-checked program (MIR of every body, ADTs,
// impls, fn signatures) into one JSON file, LMV_OUT.  It performs *no*
// analysis: every rule lives in the Python package `lmv`.
#![feature(rustc_private)]
#![allow(clippy::all)]

extern crate rustc_abi;
extern crate rustc_driver;
extern crate rustc_hir;
extern crate rustc_interface;
extern crate rustc_middle;
extern crate rustc_span;

use rustc_driver::Compilation;
use rustc_hir::def::DefKind;
use rustc_hir::def_id::{DefId, LocalDefId};
use rustc_middle::mir::{self, *};
use rustc_middle::ty::{self, GenericArgKind, GenericArgsRef, Instance, Ty, TyCtxt, TypingEnv};
use rustc_span::Span;
use std::fmt::Write as _;

// ---------------------------------------------------------------- JSON ----
enum J {
    Null,
    B(bool),
    N(i128),
    S(String),
    A(Vec<J>),
    O(Vec<(&'static str, J)>),
}
fn s<T: Into<String>>(x: T) -> J {
    J::S(x.into())
}
fn dbg<T: std::fmt::Debug>(x: &T) -> J {
    J::S(format!("{:?}", x))
}
impl J {
    fn write(&self, out: &mut String) {
        match self {
            J::Null => out.push_str("null"),
            J::B(b) => out.push_str(if *b { "true" } else { "false" }),
            J::N(n) => {
                let _ = write!(out, "{}", n);
            }
            J::S(st) => {
                out.push('"');
                for c in st.chars() {
                    match c {
                        '"' => out.push_str("\\\""),
                        '\\' => out.push_str("\\\\"),
                        '\n' => out.push_str("\\n"),
                        '\r' => out.push_str("\\r"),
                        '\t' => out.push_str("\\t"),
                        c if (c as u32) < 0x20 => {
                            let _ = write!(out, "\\u{:04x}", c as u32);
                        }
                        c => out.push(c),
                    }
                }
                out.push('"');
            }
            J::A(v) => {
                out.push('[');
                for (i, x) in v.iter().enumerate() {
                    if i > 0 {
                        out.push(',');
                    }
                    x.write(out);
                }
                out.push(']');
            }
            J::O(v) => {
                out.push('{');
                for (i, (k, x)) in v.iter().enumerate() {
                    if i > 0 {
                        out.push(',');
                    }
                    out.push('"');
                    out.push_str(k);
                    out.push_str("\":");
                    x.write(out);
                }
                out.push('}');
            }
        }
    }
}

// ------------------------------------------------------------- context ----
struct Cx<'tcx> {
    tcx: TyCtxt<'tcx>,
}

impl<'tcx> Cx<'tcx> {
    fn path(&self, d: DefId) -> String {
        ty::print::with_no_trimmed_paths!(self.tcx.def_path_str(d))
    }
    fn path_args(&self, d: DefId, a: GenericArgsRef<'tcx>) -> String {
        ty::print::with_no_trimmed_paths!(self.tcx.def_path_str_with_args(d, a))
    }
    fn tystr(&self, t: Ty<'tcx>) -> String {
        ty::print::with_no_trimmed_paths!(format!("{}", t))
    }
    fn span(&self, sp: Span) -> J {
        let sm = self.tcx.sess.source_map();
        let lo = sm.lookup_char_pos(sp.lo());
        let file = match &lo.file.name {
            rustc_span::FileName::Real(r) => match r.local_path() {
                Some(p) => p.display().to_string(),
                None => format!("{:?}", r),
            },
            o => format!("{:?}", o),
        };
        J::O(vec![
            ("file", s(file)),
            ("line", J::N(lo.line as i128)),
            ("col", J::N(lo.col.0 as i128 + 1)),
            ("exp", J::B(sp.from_expansion())),
        ])
    }

    fn args(&self, a: GenericArgsRef<'tcx>) -> J {
        J::A(
            a.iter()
                .map(|g| match g.kind() {
                    GenericArgKind::Type(t) => self.ty(t),
                    GenericArgKind::Lifetime(r) => J::O(vec![("k", s("region")), ("s", dbg(&r))]),
                    GenericArgKind::Const(c) => J::O(vec![("k", s("const")), ("s", s(format!("{}", c)))]),
                })
                .collect(),
        )
    }

    // structured type
    fn ty(&self, t: Ty<'tcx>) -> J {
        self.ty_d(t, 0)
    }
    fn ty_d(&self, t: Ty<'tcx>, depth: usize) -> J {
        let st = self.tystr(t);
        if depth > 6 {
            return J::O(vec![("k", s("deep")), ("s", s(st))]);
        }
        let d = depth + 1;
        match t.kind() {
            ty::Bool | ty::Char | ty::Int(_) | ty::Uint(_) | ty::Float(_) | ty::Str | ty::Never => {
                J::O(vec![("k", s("prim")), ("s", s(st))])
            }
            ty::Adt(def, args) => J::O(vec![
                ("k", s("adt")),
                ("name", s(self.path(def.did()))),
                ("local", J::B(def.did().is_local())),
                (
                    "args",
                    J::A(
                        args.iter()
                            .map(|g| match g.kind() {
                                GenericArgKind::Type(t) => self.ty_d(t, d),
                                GenericArgKind::Lifetime(r) => J::O(vec![("k", s("region")), ("s", dbg(&r))]),
                                GenericArgKind::Const(c) => {
                                    J::O(vec![("k", s("const")), ("s", s(format!("{}", c)))])
                                }
                            })
                            .collect(),
                    ),
                ),
                ("s", s(st)),
            ]),
            ty::Ref(r, inner, m) => J::O(vec![
                ("k", s("ref")),
                ("mut", J::B(m.is_mut())),
                ("region", dbg(r)),
                ("ty", self.ty_d(*inner, d)),
                ("s", s(st)),
            ]),
            ty::RawPtr(inner, m) => J::O(vec![
                ("k", s("ptr")),
                ("mut", J::B(m.is_mut())),
                ("ty", self.ty_d(*inner, d)),
                ("s", s(st)),
            ]),
            ty::Param(p) => J::O(vec![("k", s("param")), ("name", s(p.name.to_string())), ("s", s(st))]),
            ty::Tuple(ts) => J::O(vec![
                ("k", s("tuple")),
                ("tys", J::A(ts.iter().map(|x| self.ty_d(x, d)).collect())),
                ("s", s(st)),
            ]),
            ty::Slice(inner) => J::O(vec![("k", s("slice")), ("ty", self.ty_d(*inner, d)), ("s", s(st))]),
            ty::Array(inner, n) => J::O(vec![
                ("k", s("array")),
                ("ty", self.ty_d(*inner, d)),
                ("len", s(format!("{}", n))),
                ("s", s(st)),
            ]),
            ty::Closure(def, args) => {
                let ca = args.as_closure();
                J::O(vec![
                    ("k", s("closure")),
                    ("def", s(self.path(*def))),
                    ("upvars", J::A(ca.upvar_tys().iter().map(|x| self.ty_d(x, d)).collect())),
                    ("kind", dbg(&ca.kind())),
                    ("s", s(st)),
                ])
            }
            ty::FnDef(def, args) => J::O(vec![
                ("k", s("fndef")),
                ("def", s(self.path(*def))),
                ("full", s(self.path_args(*def, args))),
                ("s", s(st)),
            ]),
            ty::FnPtr(..) => J::O(vec![("k", s("fnptr")), ("s", s(st))]),
            ty::Alias(..) => J::O(vec![("k", s("alias")), ("s", s(st))]),
            ty::Dynamic(..) => J::O(vec![("k", s("dyn")), ("s", s(st))]),
            _ => J::O(vec![("k", s("other")), ("s", s(st))]),
        }
    }

    fn place(&self, body: &Body<'tcx>, p: &Place<'tcx>) -> J {
        let mut projs = Vec::new();
        let mut cur = mir::PlaceTy::from_ty(body.local_decls[p.local].ty);
        for elem in p.projection.iter() {
            let j = match elem {
                ProjectionElem::Deref => J::O(vec![("k", s("deref"))]),
                ProjectionElem::Field(f, fty) => {
                    // field name, if the base is an ADT
                    let mut name = J::Null;
                    let mut owner = J::Null;
                    if let ty::Adt(def, _) = cur.ty.kind() {
                        let vidx = cur.variant_index.unwrap_or(rustc_abi::FIRST_VARIANT);
                        if let Some(v) = def.variants().get(vidx) {
                            if let Some(fd) = v.fields.get(f) {
                                name = s(fd.name.to_string());
                            }
                        }
                        owner = s(self.path(def.did()));
                    } else if let ty::Closure(..) = cur.ty.kind() {
                        owner = s("closure");
                    } else if let ty::Tuple(..) = cur.ty.kind() {
                        owner = s("tuple");
                    }
                    J::O(vec![
                        ("k", s("field")),
                        ("i", J::N(f.index() as i128)),
                        ("n", name),
                        ("of", owner),
                        ("ty", s(self.tystr(fty))),
                    ])
                }
                ProjectionElem::Downcast(sym, v) => J::O(vec![
                    ("k", s("downcast")),
                    ("v", J::N(v.index() as i128)),
                    ("n", match sym {
                        Some(x) => s(x.to_string()),
                        None => J::Null,
                    }),
                ]),
                ProjectionElem::Index(l) => J::O(vec![("k", s("index")), ("l", J::N(l.index() as i128))]),
                ProjectionElem::ConstantIndex { offset, min_length, from_end } => J::O(vec![
                    ("k", s("constindex")),
                    ("offset", J::N(offset as i128)),
                    ("min", J::N(min_length as i128)),
                    ("from_end", J::B(from_end)),
                ]),
                ProjectionElem::Subslice { from, to, from_end } => J::O(vec![
                    ("k", s("subslice")),
                    ("from", J::N(from as i128)),
                    ("to", J::N(to as i128)),
                    ("from_end", J::B(from_end)),
                ]),
                ProjectionElem::OpaqueCast(t) => J::O(vec![("k", s("opaquecast")), ("ty", s(self.tystr(t)))]),
                ProjectionElem::UnwrapUnsafeBinder(t) => {
                    J::O(vec![("k", s("unwrapbinder")), ("ty", s(self.tystr(t)))])
                }
            };
            projs.push(j);
            cur = cur.projection_ty(self.tcx, elem);
        }
        J::O(vec![
            ("l", J::N(p.local.index() as i128)),
            ("p", J::A(projs)),
            ("ty", s(self.tystr(cur.ty))),
        ])
    }

    fn fn_ref(&self, owner: DefId, def: DefId, args: GenericArgsRef<'tcx>) -> J {
        let tcx = self.tcx;
        let mut v = vec![
            ("def", s(self.path(def))),
            ("full", s(self.path_args(def, args))),
            ("args", self.args(args)),
            ("local", J::B(def.is_local())),
        ];
        if let Some(tr) = tcx.trait_of_assoc(def) {
            v.push(("trait", s(self.path(tr))));
            v.push(("name", s(tcx.item_name(def).to_string())));
            if args.len() > 0 {
                if let Some(t0) = args.get(0).and_then(|g| g.as_type()) {
                    v.push(("self_ty", self.ty(t0)));
                }
            }
        } else if let Some(im) = tcx.impl_of_assoc(def) {
            let _ = im;
            v.push(("name", s(tcx.item_name(def).to_string())));
        } else if matches!(tcx.def_kind(def), DefKind::Fn | DefKind::AssocFn) {
            v.push(("name", s(tcx.item_name(def).to_string())));
        }
        // closures mentioned in the generic args (for higher-order calls)
        let mut clos = Vec::new();
        for g in args.iter() {
            if let Some(t) = g.as_type() {
                self.collect_closures(t, &mut clos, 0);
            }
        }
        v.push(("closures", J::A(clos.into_iter().map(|d| s(self.path(d))).collect())));
        // resolution
        if matches!(tcx.def_kind(def), DefKind::Fn | DefKind::AssocFn) {
            let env = TypingEnv::post_analysis(tcx, owner);
            let res = std::panic::catch_unwind(std::panic::AssertUnwindSafe(|| {
                Instance::try_resolve(tcx, env, def, args)
            }));
            match res {
                Ok(Ok(Some(inst))) => {
                    let rd = inst.def_id();
                    let kind = match inst.def {
                        ty::InstanceKind::Item(_) => "item",
                        ty::InstanceKind::Intrinsic(_) => "intrinsic",
                        ty::InstanceKind::Virtual(..) => "virtual",
                        ty::InstanceKind::ClosureOnceShim { .. } => "closure_once_shim",
                        ty::InstanceKind::FnPtrShim(..) => "fnptr_shim",
                        ty::InstanceKind::DropGlue(..) => "drop_glue",
                        ty::InstanceKind::CloneShim(..) => "clone_shim",
                        ty::InstanceKind::ReifyShim(..) => "reify_shim",
                        _ => "other",
                    };
                    v.push((
                        "resolved",
                        J::O(vec![
                            ("def", s(self.path(rd))),
                            ("full", s(self.path_args(rd, inst.args))),
                            ("args", self.args(inst.args)),
                            ("local", J::B(rd.is_local())),
                            ("kind", s(kind)),
                        ]),
                    ));
                }
                Ok(Ok(None)) => v.push(("resolved", J::Null)),
                _ => v.push(("resolved", s("error"))),
            }
        }
        J::O(v)
    }

    fn collect_closures(&self, t: Ty<'tcx>, out: &mut Vec<DefId>, depth: usize) {
        if depth > 8 {
            return;
        }
        match t.kind() {
            ty::Closure(d, args) => {
                if !out.contains(d) {
                    out.push(*d);
                }
                for u in args.as_closure().upvar_tys().iter() {
                    self.collect_closures(u, out, depth + 1);
                }
            }
            ty::Adt(_, args) => {
                for g in args.iter() {
                    if let Some(t) = g.as_type() {
                        self.collect_closures(t, out, depth + 1);
                    }
                }
            }
            ty::Ref(_, t, _) | ty::RawPtr(t, _) | ty::Slice(t) | ty::Array(t, _) => {
                self.collect_closures(*t, out, depth + 1)
            }
            ty::Tuple(ts) => {
                for t in ts.iter() {
                    self.collect_closures(t, out, depth + 1);
                }
            }
            ty::FnDef(_, args) => {
                for g in args.iter() {
                    if let Some(t) = g.as_type() {
                        self.collect_closures(t, out, depth + 1);
                    }
                }
            }
            _ => {}
        }
    }

    fn constant(&self, owner: DefId, c: &ConstOperand<'tcx>) -> J {
        let t = c.const_.ty();
        let mut v = vec![("ty", s(self.tystr(t)))];
        match t.kind() {
            ty::FnDef(def, args) => {
                v.push(("fn", self.fn_ref(owner, *def, args)));
            }
            _ => {
                v.push(("s", s(ty::print::with_no_trimmed_paths!(format!("{}", c.const_)))));
                // a promoted constant that is (a reference to) a field-less enum variant: name the variant
                if let mir::Const::Unevaluated(uv, _) = c.const_ {
                    if let Some(pidx) = uv.promoted {
                        if uv.def.is_local() {
                            let got = std::panic::catch_unwind(std::panic::AssertUnwindSafe(|| {
                                let pm = self.tcx.promoted_mir(uv.def);
                                let mut found: Option<(String, String)> = None;
                                if let Some(pb) = pm.get(pidx) {
                                    for bbd in pb.basic_blocks.iter() {
                                        for st in bbd.statements.iter() {
                                            if let StatementKind::Assign(bx) = &st.kind {
                                                if let Rvalue::Aggregate(kind, fields) = &bx.1 {
                                                    if let AggregateKind::Adt(adid, vidx, _, _, _) = &**kind {
                                                        if fields.is_empty() {
                                                            let adt = self.tcx.adt_def(*adid);
                                                            found = Some((self.path(*adid), adt.variant(*vidx).name.to_string()));
                                                        }
                                                    }
                                                }
                                            }
                                        }
                                    }
                                }
                                found
                            }));
                            if let Ok(Some((adt, vn))) = got {
                                v.push(("enum_const", J::O(vec![("adt", s(adt)), ("variant", s(vn))])));
                            }
                        }
                    }
                }
                // scalar value if evaluated
                let env = TypingEnv::post_analysis(self.tcx, owner);
                let val = std::panic::catch_unwind(std::panic::AssertUnwindSafe(|| {
                    c.const_.try_eval_scalar_int(self.tcx, env)
                }));
                if let Ok(Some(si)) = val {
                    let bits = si.to_bits_unchecked();
                    if bits <= i128::MAX as u128 {
                        v.push(("int", J::N(bits as i128)));
                    } else {
                        v.push(("int_s", s(format!("{}", bits))));
                    }
                    v.push(("size", J::N(si.size().bytes() as i128)));
                }
            }
        }
        J::O(v)
    }

    fn operand(&self, owner: DefId, body: &Body<'tcx>, o: &Operand<'tcx>) -> J {
        match o {
            Operand::Copy(p) => J::O(vec![("k", s("copy")), ("place", self.place(body, p))]),
            Operand::Move(p) => J::O(vec![("k", s("move")), ("place", self.place(body, p))]),
            Operand::Constant(c) => J::O(vec![("k", s("const")), ("c", self.constant(owner, c))]),
            #[allow(unreachable_patterns)]
            other => J::O(vec![("k", s("other")), ("s", dbg(other))]),
        }
    }

    fn rvalue(&self, owner: DefId, body: &Body<'tcx>, r: &Rvalue<'tcx>) -> J {
        let op = |o: &Operand<'tcx>| self.operand(owner, body, o);
        match r {
            Rvalue::Use(o, ..) => J::O(vec![("k", s("use")), ("op", op(o))]),
            Rvalue::Repeat(o, n) => J::O(vec![("k", s("repeat")), ("op", op(o)), ("n", s(format!("{}", n)))]),
            Rvalue::Ref(_, bk, p) => J::O(vec![
                ("k", s("ref")),
                ("mut", J::B(matches!(bk, BorrowKind::Mut { .. }))),
                ("bk", dbg(bk)),
                ("place", self.place(body, p)),
            ]),
            Rvalue::ThreadLocalRef(d) => J::O(vec![("k", s("tls")), ("def", s(self.path(*d)))]),
            Rvalue::RawPtr(k, p) => J::O(vec![
                ("k", s("rawptr")),
                ("mut", J::B(matches!(k, RawPtrKind::Mut))),
                ("place", self.place(body, p)),
            ]),
            Rvalue::Cast(k, o, t) => J::O(vec![
                ("k", s("cast")),
                ("kind", dbg(k)),
                ("op", op(o)),
                ("ty", self.ty(*t)),
            ]),
            Rvalue::BinaryOp(b, ops) => J::O(vec![
                ("k", s("binop")),
                ("op", dbg(b)),
                ("a", op(&ops.0)),
                ("b", op(&ops.1)),
            ]),
            Rvalue::UnaryOp(u, o) => J::O(vec![("k", s("unop")), ("op", dbg(u)), ("a", op(o))]),
            Rvalue::Discriminant(p) => J::O(vec![("k", s("discr")), ("place", self.place(body, p))]),
            Rvalue::Aggregate(kind, ops) => {
                let mut v = vec![("k", s("aggregate"))];
                match &**kind {
                    AggregateKind::Array(t) => {
                        v.push(("agg", s("array")));
                        v.push(("ty", s(self.tystr(*t))));
                    }
                    AggregateKind::Tuple => v.push(("agg", s("tuple"))),
                    AggregateKind::Adt(def, vidx, args, _, active) => {
                        let adt = self.tcx.adt_def(*def);
                        let var = adt.variant(*vidx);
                        v.push(("agg", s("adt")));
                        v.push(("name", s(self.path(*def))));
                        v.push(("variant", J::N(vidx.index() as i128)));
                        v.push(("vname", s(var.name.to_string())));
                        v.push((
                            "fields",
                            J::A(var.fields.iter().map(|f| s(f.name.to_string())).collect()),
                        ));
                        v.push(("args", self.args(args)));
                        if let Some(a) = active {
                            v.push(("active", J::N(a.index() as i128)));
                        }
                    }
                    AggregateKind::Closure(def, args) => {
                        v.push(("agg", s("closure")));
                        v.push(("def", s(self.path(*def))));
                        v.push(("args", self.args(args)));
                    }
                    other => {
                        v.push(("agg", s("other")));
                        v.push(("s", dbg(other)));
                    }
                }
                v.push(("ops", J::A(ops.iter().map(|o| op(o)).collect())));
                J::O(v)
            }
            Rvalue::CopyForDeref(p) => J::O(vec![("k", s("copyforderef")), ("place", self.place(body, p))]),
            other => J::O(vec![("k", s("other")), ("s", dbg(other))]),
        }
    }

    fn statement(&self, owner: DefId, body: &Body<'tcx>, st: &Statement<'tcx>) -> Option<J> {
        let sp = self.span(st.source_info.span);
        match &st.kind {
            StatementKind::Assign(b) => Some(J::O(vec![
                ("k", s("assign")),
                ("place", self.place(body, &b.0)),
                ("rv", self.rvalue(owner, body, &b.1)),
                ("span", sp),
            ])),
            StatementKind::SetDiscriminant { place, variant_index } => Some(J::O(vec![
                ("k", s("setdiscr")),
                ("place", self.place(body, place)),
                ("v", J::N(variant_index.index() as i128)),
                ("span", sp),
            ])),
            StatementKind::StorageLive(l) => {
                Some(J::O(vec![("k", s("live")), ("l", J::N(l.index() as i128))]))
            }
            StatementKind::StorageDead(l) => {
                Some(J::O(vec![("k", s("dead")), ("l", J::N(l.index() as i128))]))
            }
            StatementKind::Intrinsic(i) => Some(J::O(vec![("k", s("intrinsic")), ("s", dbg(i)), ("span", sp)])),
            StatementKind::Nop
            | StatementKind::FakeRead(..)
            | StatementKind::PlaceMention(..)
            | StatementKind::AscribeUserType(..)
            | StatementKind::Coverage(..)
            | StatementKind::ConstEvalCounter
            | StatementKind::BackwardIncompatibleDropHint { .. } => None,
            #[allow(unreachable_patterns)]
            other => Some(J::O(vec![("k", s("other")), ("s", dbg(other)), ("span", sp)])),
        }
    }

    fn unwind(&self, u: &UnwindAction) -> J {
        match u {
            UnwindAction::Continue => s("continue"),
            UnwindAction::Unreachable => s("unreachable"),
            UnwindAction::Terminate(_) => s("terminate"),
            UnwindAction::Cleanup(bb) => J::N(bb.index() as i128),
        }
    }

    fn terminator(&self, owner: DefId, body: &Body<'tcx>, t: &Terminator<'tcx>) -> J {
        let sp = self.span(t.source_info.span);
        let bbn = |b: &BasicBlock| J::N(b.index() as i128);
        let mut v: Vec<(&'static str, J)> = Vec::new();
        match &t.kind {
            TerminatorKind::Goto { target } => {
                v.push(("k", s("goto")));
                v.push(("target", bbn(target)));
            }
            TerminatorKind::SwitchInt { discr, targets } => {
                v.push(("k", s("switch")));
                v.push(("discr", self.operand(owner, body, discr)));
                v.push((
                    "targets",
                    J::A(
                        targets
                            .iter()
                            .map(|(val, bb)| {
                                J::A(vec![
                                    if val <= i128::MAX as u128 { J::N(val as i128) } else { s(format!("{}", val)) },
                                    bbn(&bb),
                                ])
                            })
                            .collect(),
                    ),
                ));
                v.push(("otherwise", bbn(&targets.otherwise())));
            }
            TerminatorKind::UnwindResume => v.push(("k", s("resume"))),
            TerminatorKind::UnwindTerminate(_) => v.push(("k", s("terminate"))),
            TerminatorKind::Return => v.push(("k", s("return"))),
            TerminatorKind::Unreachable => v.push(("k", s("unreachable"))),
            TerminatorKind::Drop { place, target, unwind, .. } => {
                v.push(("k", s("drop")));
                v.push(("place", self.place(body, place)));
                v.push(("target", bbn(target)));
                v.push(("unwind", self.unwind(unwind)));
            }
            TerminatorKind::Call { func, args, destination, target, unwind, .. } => {
                v.push(("k", s("call")));
                v.push(("func", self.operand(owner, body, func)));
                let fty = func.ty(&body.local_decls, self.tcx);
                v.push(("func_ty", self.ty(fty)));
                v.push(("args", J::A(args.iter().map(|a| self.operand(owner, body, &a.node)).collect())));
                v.push(("dest", self.place(body, destination)));
                v.push(("target", match target {
                    Some(b) => bbn(b),
                    None => J::Null,
                }));
                v.push(("unwind", self.unwind(unwind)));
            }
            TerminatorKind::TailCall { func, args, .. } => {
                v.push(("k", s("tailcall")));
                v.push(("func", self.operand(owner, body, func)));
                v.push(("args", J::A(args.iter().map(|a| self.operand(owner, body, &a.node)).collect())));
            }
            TerminatorKind::Assert { cond, expected, msg, target, unwind } => {
                v.push(("k", s("assert")));
                v.push(("cond", self.operand(owner, body, cond)));
                v.push(("expected", J::B(*expected)));
                let (mk, detail) = match &**msg {
                    AssertKind::Overflow(op, ..) => ("overflow", format!("{:?}", op)),
                    AssertKind::OverflowNeg(_) => ("overflow_neg", String::new()),
                    AssertKind::DivisionByZero(_) => ("div_zero", String::new()),
                    AssertKind::RemainderByZero(_) => ("rem_zero", String::new()),
                    AssertKind::BoundsCheck { .. } => ("bounds", String::new()),
                    AssertKind::MisalignedPointerDereference { .. } => ("misaligned", String::new()),
                    AssertKind::NullPointerDereference => ("null_deref", String::new()),
                    other => ("other", format!("{:?}", other)),
                };
                v.push(("msg", s(mk)));
                v.push(("detail", s(detail)));
                v.push(("target", bbn(target)));
                v.push(("unwind", self.unwind(unwind)));
            }
            TerminatorKind::FalseEdge { real_target, .. } => {
                v.push(("k", s("goto")));
                v.push(("target", bbn(real_target)));
            }
            TerminatorKind::FalseUnwind { real_target, .. } => {
                v.push(("k", s("goto")));
                v.push(("target", bbn(real_target)));
            }
            other => {
                v.push(("k", s("other")));
                v.push(("s", dbg(other)));
            }
        }
        v.push(("span", sp));
        J::O(v)
    }

    fn generics_of(&self, d: DefId) -> J {
        let g = self.tcx.generics_of(d);
        let mut names = Vec::new();
        let mut cur = Some(g);
        let mut chain = Vec::new();
        while let Some(g) = cur {
            chain.push(g);
            cur = g.parent.map(|p| self.tcx.generics_of(p));
        }
        for g in chain.iter().rev() {
            for p in g.own_params.iter() {
                names.push(J::O(vec![
                    ("name", s(p.name.to_string())),
                    ("kind", s(match p.kind {
                        ty::GenericParamDefKind::Lifetime => "lifetime",
                        ty::GenericParamDefKind::Type { .. } => "type",
                        ty::GenericParamDefKind::Const { .. } => "const",
                    })),
                ]));
            }
        }
        J::A(names)
    }

    fn predicates_of(&self, d: DefId) -> J {
        let preds = self.tcx.predicates_of(d).instantiate_identity(self.tcx);
        J::A(
            preds
                .predicates
                .iter()
                .map(|p| s(ty::print::with_no_trimmed_paths!(format!("{}", p.skip_norm_wip()))))
                .collect(),
        )
    }

    fn body(&self, ldid: LocalDefId) -> Option<J> {
        let tcx = self.tcx;
        let did = ldid.to_def_id();
        let kind = tcx.def_kind(did);
        let kind_s = match kind {
            DefKind::Fn => "fn",
            DefKind::AssocFn => "assoc_fn",
            DefKind::Closure => "closure",
            _ => return None, // consts, statics, anon consts: not analysed
        };
        let body: &Body<'tcx> = tcx.optimized_mir(did);
        let mut v: Vec<(&'static str, J)> = vec![
            ("path", s(self.path(did))),
            ("kind", s(kind_s)),
            ("span", self.span(body.span)),
            ("arg_count", J::N(body.arg_count as i128)),
            ("generics", self.generics_of(did)),
        ];
        if matches!(kind, DefKind::Fn | DefKind::AssocFn) {
            v.push(("name", s(tcx.item_name(did).to_string())));
            v.push(("vis", s(match tcx.visibility(did) {
                ty::Visibility::Public => "pub".to_string(),
                ty::Visibility::Restricted(m) => format!("restricted:{}", self.path(m)),
            })));
            let sig = tcx.fn_sig(did).instantiate_identity().skip_norm_wip();
            v.push(("sig", s(ty::print::with_no_trimmed_paths!(format!("{}", sig)))));
            v.push(("unsafe", J::B(sig.safety().is_unsafe())));
            let sk = sig.skip_binder();
            v.push(("inputs", J::A(sk.inputs().iter().map(|t| self.ty(*t)).collect())));
            v.push(("output", self.ty(sk.output())));
            v.push(("predicates", self.predicates_of(did)));
            if let Some(im) = tcx.impl_of_assoc(did) {
                v.push(("impl", s(self.path(im))));
                let self_ty = tcx.type_of(im).instantiate_identity().skip_norm_wip();
                v.push(("impl_self", self.ty(self_ty)));
                if let Some(tr) = tcx.impl_opt_trait_ref(im) {
                    let tr = tr.instantiate_identity().skip_norm_wip();
                    v.push(("impl_trait", s(self.path(tr.def_id))));
                    v.push(("impl_trait_full", s(ty::print::with_no_trimmed_paths!(format!("{}", tr)))));
                }
            } else if let Some(tr) = tcx.trait_of_assoc(did) {
                v.push(("trait_default_of", s(self.path(tr))));
            }
        } else {
            // closure: parent fn
            let parent = tcx.typeck_root_def_id(did);
            v.push(("parent", s(self.path(parent))));
            let cty = tcx.type_of(did).instantiate_identity().skip_norm_wip();
            v.push(("closure_ty", self.ty(cty)));
        }
        // locals
        let mut locals = Vec::new();
        for (_l, decl) in body.local_decls.iter_enumerated() {
            locals.push(J::O(vec![
                ("ty", self.ty(decl.ty)),
                ("mut", J::B(decl.mutability.is_mut())),
                ("span", self.span(decl.source_info.span)),
            ]));
        }
        v.push(("locals", J::A(locals)));
        // debug names
        let mut dbgv = Vec::new();
        for vdi in body.var_debug_info.iter() {
            if let VarDebugInfoContents::Place(p) = &vdi.value {
                dbgv.push(J::O(vec![
                    ("name", s(vdi.name.to_string())),
                    ("place", self.place(body, p)),
                    ("arg", match vdi.argument_index {
                        Some(i) => J::N(i as i128),
                        None => J::Null,
                    }),
                ]));
            }
        }
        v.push(("debug", J::A(dbgv)));
        // blocks
        let mut blocks = Vec::new();
        for (_bb, data) in body.basic_blocks.iter_enumerated() {
            let stmts: Vec<J> = data.statements.iter().filter_map(|st| self.statement(did, body, st)).collect();
            blocks.push(J::O(vec![
                ("cleanup", J::B(data.is_cleanup)),
                ("stmts", J::A(stmts)),
                ("term", self.terminator(did, body, data.terminator())),
            ]));
        }
        v.push(("blocks", J::A(blocks)));
        Some(J::O(v))
    }

    fn adts_and_impls(&self) -> (J, J, J) {
        let tcx = self.tcx;
        let mut adts = Vec::new();
        let mut impls = Vec::new();
        let mut traits = Vec::new();
        for id in tcx.hir_free_items() {
            let did = id.owner_id.to_def_id();
            match tcx.def_kind(did) {
                DefKind::Struct | DefKind::Enum | DefKind::Union => {
                    let adt = tcx.adt_def(did);
                    let mut variants = Vec::new();
                    for var in adt.variants().iter() {
                        let mut fields = Vec::new();
                        for f in var.fields.iter() {
                            let fty = tcx.type_of(f.did).instantiate_identity().skip_norm_wip();
                            fields.push(J::O(vec![
                                ("name", s(f.name.to_string())),
                                ("ty", self.ty(fty)),
                                ("vis", s(match f.vis {
                                    ty::Visibility::Public => "pub".to_string(),
                                    ty::Visibility::Restricted(m) => format!("restricted:{}", self.path(m)),
                                })),
                            ]));
                        }
                        variants.push(J::O(vec![("name", s(var.name.to_string())), ("fields", J::A(fields))]));
                    }
                    let self_ty = tcx.type_of(did).instantiate_identity().skip_norm_wip();
                    let env = TypingEnv::post_analysis(tcx, did);
                    adts.push(J::O(vec![
                        ("path", s(self.path(did))),
                        ("kind", s(match tcx.def_kind(did) {
                            DefKind::Struct => "struct",
                            DefKind::Enum => "enum",
                            _ => "union",
                        })),
                        ("vis", s(match tcx.visibility(did) {
                            ty::Visibility::Public => "pub".to_string(),
                            ty::Visibility::Restricted(m) => format!("restricted:{}", self.path(m)),
                        })),
                        ("generics", self.generics_of(did)),
                        ("variants", J::A(variants)),
                        ("has_drop_impl", J::B(adt.has_dtor(tcx))),
                        ("needs_drop", J::B(self_ty.needs_drop(tcx, env))),
                        ("span", self.span(tcx.def_span(did))),
                    ]));
                }
                DefKind::Impl { of_trait } => {
                    let self_ty = tcx.type_of(did).instantiate_identity().skip_norm_wip();
                    let mut v = vec![
                        ("path", s(self.path(did))),
                        ("self_ty", self.ty(self_ty)),
                        ("generics", self.generics_of(did)),
                        ("predicates", self.predicates_of(did)),
                        ("span", self.span(tcx.def_span(did))),
                        ("of_trait", J::B(of_trait)),
                    ];
                    if of_trait {
                        let tr = tcx.impl_trait_ref(did).instantiate_identity().skip_norm_wip();
                        v.push(("trait", s(self.path(tr.def_id))));
                        v.push(("trait_full", s(ty::print::with_no_trimmed_paths!(format!("{}", tr)))));
                        let hdr = tcx.impl_trait_header(did);
                        v.push(("unsafe", J::B(hdr.safety.is_unsafe())));
                        v.push(("polarity", dbg(&hdr.polarity)));
                        v.push(("auto_trait", J::B(tcx.trait_is_auto(tr.def_id))));
                    }
                    let items: Vec<J> = tcx
                        .associated_items(did)
                        .in_definition_order()
                        .map(|it| {
                            J::O(vec![
                                ("name", s(it.name().to_string())),
                                ("kind", s(it.kind.as_def_kind().descr(it.def_id).to_string())),
                                ("path", s(self.path(it.def_id))),
                            ])
                        })
                        .collect();
                    v.push(("items", J::A(items)));
                    impls.push(J::O(v));
                }
                DefKind::Trait => {
                    let items: Vec<J> = tcx
                        .associated_items(did)
                        .in_definition_order()
                        .map(|it| {
                            J::O(vec![
                                ("name", s(it.name().to_string())),
                                ("path", s(self.path(it.def_id))),
                                ("has_default", J::B(it.defaultness(tcx).has_value())),
                            ])
                        })
                        .collect();
                    traits.push(J::O(vec![
                        ("path", s(self.path(did))),
                        ("predicates", self.predicates_of(did)),
                        ("supertraits", J::A(
                            tcx.explicit_super_predicates_of(did)
                                .iter_identity_copied()
                                .map(|pp| s(ty::print::with_no_trimmed_paths!(format!("{}", pp.skip_norm_wip().0))))
                                .collect(),
                        )),
                        ("items", J::A(items)),
                        ("span", self.span(tcx.def_span(did))),
                    ]));
                }
                _ => {}
            }
        }
        (J::A(adts), J::A(impls), J::A(traits))
    }
}

struct Cb;
impl rustc_driver::Callbacks for Cb {
    fn after_analysis<'tcx>(&mut self, _c: &rustc_interface::interface::Compiler, tcx: TyCtxt<'tcx>) -> Compilation {
        let want = std::env::var("LMV_CRATE").unwrap_or_else(|_| "lru_mem".to_string());
        let name = tcx.crate_name(rustc_hir::def_id::LOCAL_CRATE).to_string();
        if name != want {
            return Compilation::Continue;
        }
        let out_path = match std::env::var("LMV_OUT") {
            Ok(p) => p,
            Err(_) => return Compilation::Continue,
        };
        let cx = Cx { tcx };
        let mut bodies = Vec::new();
        for ldid in tcx.hir_body_owners() {
            if let Some(b) = cx.body(ldid) {
                bodies.push(b);
            }
        }
        let (adts, impls, traits) = cx.adts_and_impls();
        let top = J::O(vec![
            ("crate", s(name)),
            ("rustc", s(rustc_version())),
            ("bodies", J::A(bodies)),
            ("adts", adts),
            ("impls", impls),
            ("traits", traits),
        ]);
        let mut out = String::with_capacity(1 << 24);
        top.write(&mut out);
        let tmp = format!("{}.tmp.{}", out_path, std::process::id());
        std::fs::write(&tmp, out).expect("write facts");
        std::fs::rename(&tmp, &out_path).expect("rename facts");
        Compilation::Continue
    }
}

fn rustc_version() -> String {
    option_env!("CFG_VERSION").unwrap_or("nightly").to_string()
}

fn main() {
    let mut args: Vec<String> = std::env::args().collect();
    // RUSTC_WORKSPACE_WRAPPER: argv = [driver, rustc, args...]
    if args.len() > 1 && (args[1].ends_with("rustc") || args[1].contains("rustc")) && !args[1].starts_with('-') {
        args.remove(1);
    }
    let mut cb = Cb;
    rustc_driver::run_compiler(&args, &mut cb);
}
